// Package simos is the simulated disk used by generated (overlay-only) copies of dskit files whose
// import "os" is redirected here. It offers exactly the identifiers those files use. Files live in
// memory; every operation first asks the installed fault hook whether it should fail, be torn, or
// whether the calling process "crashes" at this point (the goroutine then never returns).
package simos

import (
	"io/fs"
	"os"
	"sort"
	"sync"
	"syscall"
)

// Decision is what the fault hook wants to happen to one operation.
type Decision struct {
	Err        error // fail the operation (nothing is changed unless Partial > 0)
	Partial    int   // for "write": number of bytes that reach the file before Err / the crash
	CrashAfter bool  // perform the operation (or its partial effect), then the process dies
	Crash      bool  // the process dies before the operation has any effect
}

// FS is one simulated disk.
type FS struct {
	mu    sync.Mutex
	files map[string][]byte
	// Hook is consulted before every operation: op is one of create, write, close, rename, remove,
	// readfile. A nil hook means no faults.
	Hook func(op, path string, size int) Decision
	// Ops counts operations by kind.
	Ops map[string]int
}

// Cur is the disk of the current simulation run (installed by the world).
var Cur = New()

func New() *FS { return &FS{files: map[string][]byte{}, Ops: map[string]int{}} }

func (f *FS) decide(op, path string, size int) Decision {
	f.mu.Lock()
	f.Ops[op]++
	h := f.Hook
	f.mu.Unlock()
	if h == nil {
		return Decision{}
	}
	d := h(op, path, size)
	if d.Crash {
		select {}
	}
	return d
}

func crashNow() { select {} }

// Snapshot returns a copy of the named file (nil, false if absent).
func (f *FS) Snapshot(path string) ([]byte, bool) {
	f.mu.Lock()
	defer f.mu.Unlock()
	b, ok := f.files[path]
	return append([]byte(nil), b...), ok
}

// Put writes a file directly (harness set-up: pre-existing, possibly corrupt, files).
func (f *FS) Put(path string, data []byte) {
	f.mu.Lock()
	f.files[path] = append([]byte(nil), data...)
	f.mu.Unlock()
}

// Names lists the files on the disk.
func (f *FS) Names() []string {
	f.mu.Lock()
	defer f.mu.Unlock()
	var out []string
	for n := range f.files {
		out = append(out, n)
	}
	sort.Strings(out)
	return out
}

func notExist(op, path string) error {
	return &fs.PathError{Op: op, Path: path, Err: syscall.ENOENT}
}

// File is an open simulated file.
type File struct {
	fs     *FS
	name   string
	closed bool
}

func Create(name string) (*File, error) {
	f := Cur
	d := f.decide("create", name, 0)
	if d.Err != nil {
		return nil, &fs.PathError{Op: "open", Path: name, Err: d.Err}
	}
	f.mu.Lock()
	f.files[name] = []byte{}
	f.mu.Unlock()
	if d.CrashAfter {
		crashNow()
	}
	return &File{fs: f, name: name}, nil
}

func (fl *File) Name() string { return fl.name }

func (fl *File) Write(b []byte) (int, error) {
	if fl.closed {
		return 0, &fs.PathError{Op: "write", Path: fl.name, Err: fs.ErrClosed}
	}
	d := fl.fs.decide("write", fl.name, len(b))
	n := len(b)
	if d.Err != nil || d.Partial > 0 {
		n = d.Partial
		if n > len(b) {
			n = len(b)
		}
	}
	fl.fs.mu.Lock()
	fl.fs.files[fl.name] = append(fl.fs.files[fl.name], b[:n]...)
	fl.fs.mu.Unlock()
	if d.CrashAfter {
		crashNow()
	}
	if d.Err != nil {
		return n, &fs.PathError{Op: "write", Path: fl.name, Err: d.Err}
	}
	if n < len(b) {
		return n, &fs.PathError{Op: "write", Path: fl.name, Err: syscall.ENOSPC}
	}
	return n, nil
}

func (fl *File) Close() error {
	if fl.closed {
		return &fs.PathError{Op: "close", Path: fl.name, Err: fs.ErrClosed}
	}
	d := fl.fs.decide("close", fl.name, 0)
	fl.closed = true
	if d.CrashAfter {
		crashNow()
	}
	if d.Err != nil {
		return &fs.PathError{Op: "close", Path: fl.name, Err: d.Err}
	}
	return nil
}

func Rename(oldpath, newpath string) error {
	f := Cur
	d := f.decide("rename", newpath, 0)
	if d.Err != nil {
		return &os.LinkError{Op: "rename", Old: oldpath, New: newpath, Err: d.Err}
	}
	f.mu.Lock()
	b, ok := f.files[oldpath]
	if ok {
		f.files[newpath] = b
		delete(f.files, oldpath)
	}
	f.mu.Unlock()
	if !ok {
		return &os.LinkError{Op: "rename", Old: oldpath, New: newpath, Err: syscall.ENOENT}
	}
	if d.CrashAfter {
		crashNow()
	}
	return nil
}

func Remove(name string) error {
	f := Cur
	d := f.decide("remove", name, 0)
	if d.Err != nil {
		return &fs.PathError{Op: "remove", Path: name, Err: d.Err}
	}
	f.mu.Lock()
	_, ok := f.files[name]
	delete(f.files, name)
	f.mu.Unlock()
	if !ok {
		return notExist("remove", name)
	}
	if d.CrashAfter {
		crashNow()
	}
	return nil
}

func ReadFile(name string) ([]byte, error) {
	f := Cur
	d := f.decide("readfile", name, 0)
	if d.Err != nil {
		return nil, &fs.PathError{Op: "open", Path: name, Err: d.Err}
	}
	f.mu.Lock()
	b, ok := f.files[name]
	out := append([]byte(nil), b...)
	f.mu.Unlock()
	if !ok {
		return nil, notExist("open", name)
	}
	return out, nil
}

func IsNotExist(err error) bool { return os.IsNotExist(err) }

func Hostname() (string, error) { return "simhost", nil }

// Exit is never expected to be called by the instrumented files.
func Exit(code int) { os.Exit(code) }
