// Package simos is the simulated disk used by generated (overlay-only) copies of dskit files whose
// import "os" is redirected here. It offers exactly the identifiers those files use. Files live in
// memory; every operation first asks the installed fault hook whether it should fail, be torn, or
// whether the calling process "crashes" at this point (the goroutine then never returns).
package simos

import (
	"io/fs"
	"os"
	"sort"
	"sync"
	"syscall"
)

// Decision is what the fault hook wants to happen to one operation.
type Decision struct {
	Err        error // fail the operation (nothing is changed unless Partial > 0)
	Partial    int   // for "write": number of bytes that reach the file before Err / the crash
	CrashAfter bool  // perform the operation (or its partial effect), then the process dies
	Crash      bool  // the process dies before the operation has any effect
}

// FS is one simulated disk.
type FS struct {
	mu    sync.Mutex
	files map[string][]byte
	// Hook is consulted before every operation: op is one of create, write, close, rename, remove,
	// readfile. A nil hook means no faults.
	Hook func(op, path string, size int) Decision
	// Ops counts operations by kind.
	Ops map[string]int
}

// Cur is the disk of the current simulation run (installed by the world).
var Cur = New()

func New() *FS { return &FS{files: map[string][]byte{}, Ops: map[string]int{}} }

func (f *FS) decide(op, path string, size int) Decision {
	f.mu.Lock()
	f.Ops[op]++
	h := f.Hook
	f.mu.Unlock()
	if h == nil {
		return Decision{}
	}
	d := h(op, path, size)
	if d.Crash {
		select {}
	}
	return d
}

func crashNow() { select {} }

// Snapshot returns a copy of the named file (nil, false if absent).
func (f *FS) Snapshot(path string) ([]byte, bool) {
	f.mu.Lock()
	defer f.mu.Unlock()
	b, ok := f.files[path]
	return append([]byte(nil), b...), ok
}

// Put writes a file directly (harness set-up: pre-existing, possibly corrupt, files).
func (f *FS) Put(path string, data []byte) {
	f.mu.Lock()
	f.files[path] = append([]byte(nil), data...)
	f.mu.Unlock()
}

// Names lists the files on the disk.
func (f *FS) Names() []string {
	f.mu.Lock()
	defer f.mu.Unlock()
	var out []string
	for n := range f.files {
		out = append(out, n)
	}
	sort.Strings(out)
	return out
}

func notExist(op, path string) error {
	return &fs.PathError{Op: op, Path: path, Err: syscall.ENOENT}
}

// File is an open simulated file.
type File struct {
	fs     *FS
	name   string
	closed bool
	off    int  // write position
	app    bool // O_APPEND
}

// The parts of package os that a plausible edit of the instrumented files may start to use.
const (
	O_RDONLY = os.O_RDONLY
	O_WRONLY = os.O_WRONLY
	O_RDWR   = os.O_RDWR
	O_APPEND = os.O_APPEND
	O_CREATE = os.O_CREATE
	O_EXCL   = os.O_EXCL
	O_SYNC   = os.O_SYNC
	O_TRUNC  = os.O_TRUNC
	ModePerm = os.ModePerm
)

type FileMode = os.FileMode

var (
	ErrNotExist = os.ErrNotExist
	ErrExist    = os.ErrExist
)

// OpenFile honours O_CREATE, O_EXCL, O_TRUNC and O_APPEND; without O_TRUNC an existing file keeps its
// content and is overwritten from offset 0 (as on a real disk).
func OpenFile(name string, flag int, _ FileMode) (*File, error) {
	f := Cur
	d := f.decide("create", name, 0)
	if d.Err != nil {
		return nil, &fs.PathError{Op: "open", Path: name, Err: d.Err}
	}
	f.mu.Lock()
	_, exists := f.files[name]
	switch {
	case !exists && flag&O_CREATE == 0:
		f.mu.Unlock()
		return nil, notExist("open", name)
	case exists && flag&O_CREATE != 0 && flag&O_EXCL != 0:
		f.mu.Unlock()
		return nil, &fs.PathError{Op: "open", Path: name, Err: syscall.EEXIST}
	case !exists || flag&O_TRUNC != 0:
		f.files[name] = []byte{}
	}
	f.mu.Unlock()
	if d.CrashAfter {
		crashNow()
	}
	return &File{fs: f, name: name, app: flag&O_APPEND != 0}, nil
}

func WriteFile(name string, data []byte, perm FileMode) error {
	fl, err := OpenFile(name, O_WRONLY|O_CREATE|O_TRUNC, perm)
	if err != nil {
		return err
	}
	_, err = fl.Write(data)
	if cerr := fl.Close(); err == nil {
		err = cerr
	}
	return err
}

func MkdirAll(string, FileMode) error { return nil }
func Chmod(string, FileMode) error    { return nil }
func IsExist(err error) bool           { return os.IsExist(err) }

// Sync is a scheduling / fault point; the simulated disk has no volatile cache (process crashes only).
func (fl *File) Sync() error {
	d := fl.fs.decide("sync", fl.name, 0)
	if d.CrashAfter {
		crashNow()
	}
	if d.Err != nil {
		return &fs.PathError{Op: "sync", Path: fl.name, Err: d.Err}
	}
	return nil
}

func (fl *File) WriteString(s string) (int, error) { return fl.Write([]byte(s)) }

func Create(name string) (*File, error) {
	f := Cur
	d := f.decide("create", name, 0)
	if d.Err != nil {
		return nil, &fs.PathError{Op: "open", Path: name, Err: d.Err}
	}
	f.mu.Lock()
	f.files[name] = []byte{}
	f.mu.Unlock()
	if d.CrashAfter {
		crashNow()
	}
	return &File{fs: f, name: name}, nil
}

func (fl *File) Name() string { return fl.name }

func (fl *File) Write(b []byte) (int, error) {
	if fl.closed {
		return 0, &fs.PathError{Op: "write", Path: fl.name, Err: fs.ErrClosed}
	}
	d := fl.fs.decide("write", fl.name, len(b))
	n := len(b)
	if d.Err != nil || d.Partial > 0 {
		n = d.Partial
		if n > len(b) {
			n = len(b)
		}
	}
	fl.fs.mu.Lock()
	cur := fl.fs.files[fl.name]
	if fl.app || fl.off > len(cur) {
		fl.off = len(cur)
	}
	// overwrite from the write position, extend beyond the end
	k := copy(cur[fl.off:], b[:n])
	cur = append(cur, b[k:n]...)
	fl.off += n
	fl.fs.files[fl.name] = cur
	fl.fs.mu.Unlock()
	if d.CrashAfter {
		crashNow()
	}
	if d.Err != nil {
		return n, &fs.PathError{Op: "write", Path: fl.name, Err: d.Err}
	}
	if n < len(b) {
		return n, &fs.PathError{Op: "write", Path: fl.name, Err: syscall.ENOSPC}
	}
	return n, nil
}

func (fl *File) Close() error {
	if fl.closed {
		return &fs.PathError{Op: "close", Path: fl.name, Err: fs.ErrClosed}
	}
	d := fl.fs.decide("close", fl.name, 0)
	fl.closed = true
	if d.CrashAfter {
		crashNow()
	}
	if d.Err != nil {
		return &fs.PathError{Op: "close", Path: fl.name, Err: d.Err}
	}
	return nil
}

func Rename(oldpath, newpath string) error {
	f := Cur
	d := f.decide("rename", newpath, 0)
	if d.Err != nil {
		return &os.LinkError{Op: "rename", Old: oldpath, New: newpath, Err: d.Err}
	}
	f.mu.Lock()
	b, ok := f.files[oldpath]
	if ok {
		f.files[newpath] = b
		delete(f.files, oldpath)
	}
	f.mu.Unlock()
	if !ok {
		return &os.LinkError{Op: "rename", Old: oldpath, New: newpath, Err: syscall.ENOENT}
	}
	if d.CrashAfter {
		crashNow()
	}
	return nil
}

func Remove(name string) error {
	f := Cur
	d := f.decide("remove", name, 0)
	if d.Err != nil {
		return &fs.PathError{Op: "remove", Path: name, Err: d.Err}
	}
	f.mu.Lock()
	_, ok := f.files[name]
	delete(f.files, name)
	f.mu.Unlock()
	if !ok {
		return notExist("remove", name)
	}
	if d.CrashAfter {
		crashNow()
	}
	return nil
}

func ReadFile(name string) ([]byte, error) {
	f := Cur
	d := f.decide("readfile", name, 0)
	if d.Err != nil {
		return nil, &fs.PathError{Op: "open", Path: name, Err: d.Err}
	}
	f.mu.Lock()
	b, ok := f.files[name]
	out := append([]byte(nil), b...)
	f.mu.Unlock()
	if !ok {
		return nil, notExist("open", name)
	}
	return out, nil
}

func IsNotExist(err error) bool { return os.IsNotExist(err) }

func Hostname() (string, error) { return "simhost", nil }

// Exit is never expected to be called by the instrumented files.
func Exit(code int) { os.Exit(code) }
