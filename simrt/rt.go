// Package simrt is the tiny runtime imported by generated (overlay-only) copies of dskit files.
// Outside a simulation run the hooks are nil: Y does nothing and Sel.Select is an ordinary select.
package simrt

import "reflect"

// Hook is installed by the simulator for the duration of one run.
var Hook func(site string)

// Y is a scheduling point: the simulator may park the calling goroutine here.
func Y(site string) {
	if h := Hook; h != nil {
		h(site)
	}
}

// SelHook is installed by the simulator for the duration of one run. Given the site of a
// receive-only select statement with n cases it returns the order in which the cases are polled
// (a permutation of 0..n-1), or nil to leave the choice to the Go runtime.
var SelHook func(site string, n int) []int

// Sel carries the value received by a rewritten select statement (tools/vtool sel):
//
//	select { case <-a: A; case v := <-b: B }
//
// becomes
//
//	switch __r, __c0, __c1 := new(simrt.Sel), a, b; __r.Select(site, __c0, __c1) {
//	case 0: A
//	case 1: v := simrt.Val(__c1, __r); B
//	}
//
// Go's select picks pseudo-randomly among the ready cases from a generator user code cannot seed;
// here the simulator decides the polling order, so which ready case proceeds is part of the
// replayable schedule. Every order is a legal behaviour of the original statement. When no case is
// ready the goroutine blocks in an ordinary (reflect) select over the same channels.
type Sel struct {
	V  reflect.Value
	OK bool
}

func (r *Sel) Select(site string, chans ...any) int {
	n := len(chans)
	vals := make([]reflect.Value, n)
	for i, c := range chans {
		vals[i] = reflect.ValueOf(c)
	}
	if h := SelHook; h != nil {
		if order := h(site, n); order != nil {
			for _, i := range order {
				if vals[i].IsNil() {
					continue
				}
				x, ok := vals[i].TryRecv()
				if x.IsValid() {
					r.V, r.OK = x, ok
					return i
				}
			}
		}
	}
	cases := make([]reflect.SelectCase, n)
	for i := range cases {
		cases[i] = reflect.SelectCase{Dir: reflect.SelectRecv, Chan: vals[i]}
	}
	i, x, ok := reflect.Select(cases)
	r.V, r.OK = x, ok
	return i
}

// Val returns the received value with the element type of ch.
func Val[T any](ch <-chan T, r *Sel) T {
	v, _ := Val2(ch, r)
	return v
}

// Val2 is the two-value receive form.
func Val2[T any](ch <-chan T, r *Sel) (T, bool) {
	var zero T
	if !r.V.IsValid() {
		return zero, r.OK
	}
	x := r.V.Interface()
	if x == nil {
		return zero, r.OK
	}
	return x.(T), r.OK
}
