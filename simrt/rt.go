// Package simrt is the tiny runtime imported by generated (overlay-only) copies of dskit files.
// Outside a simulation run Hook is nil and Y does nothing.
package simrt

// Hook is installed by the simulator for the duration of one run.
var Hook func(site string)

// Y is a scheduling point: the simulator may park the calling goroutine here.
func Y(site string) {
	if h := Hook; h != nil {
		h(site)
	}
}
