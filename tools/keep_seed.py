#!/usr/bin/env python3
"""keep_seed.py <seedout dir> <name> <caught_by text> <verify RESULT line> : copies a confirmed seeded change into /verif/seeded/<name>/"""
import json, os, shutil, sys, glob
src, name, caught, result = sys.argv[1:5]
dst = "/verif/seeded/" + name
os.makedirs(dst, exist_ok=True)
shutil.copy(src + "/patch.diff", dst + "/patch.diff")
for f in glob.glob(src + "/*.go"):
    shutil.copy(f, dst + "/" + os.path.basename(f))
m = json.load(open(src + "/meta.json"))
meta = {
    "property": m["property"],
    "summary": m["summary"],
    "needs_to_manifest": m["needs_to_manifest"],
    "demo": {"file": [os.path.basename(f) for f in glob.glob(src + "/*.go")], "place_at": m["demo_path_in_repo"], "cmd": m["demo_cmd"]},
    "touched_packages": m["touched_packages"],
    "author": "independent sub-agent given only the property text and a scratch worktree",
    "confirmed_by_me": {"script": "tools/verify_seed.sh (scratch worktree of /repo HEAD): demo passes without patch; with patch: go build ./... ok, existing tests of touched packages pass, demo fails", "result": result},
    "checks_run": caught,
}
json.dump(meta, open(dst + "/meta.json", "w"), indent=1)
print("kept", dst)
