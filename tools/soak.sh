#!/bin/bash
# soak.sh <seed...>: run every registered check with the given seeds, print one line per run
# env: SOAK_TIER=quick|thorough (default quick), SOAK_WORKERS=n, SOAK_BUDGET=s (overrides the tier's budget)
cd /verif
props=$(python3 -c "import json;print(' '.join(c['property_id'] for c in json.load(open('MANIFEST.json'))['checks']))")
for seed in "$@"; do
  for p in $props; do
    args="--tier ${SOAK_TIER:-quick}"
    [ -n "$SOAK_WORKERS" ] && args="$args --workers $SOAK_WORKERS"
    [ -n "$SOAK_BUDGET" ] && args="$args --budget $SOAK_BUDGET"
    out=$(VERIF_SEED=$seed VERIF_OUT_DIR=${SOAK_OUT:-/verif} bin/vcheck $p $args 2>&1); rc=$?
    echo "seed=$seed $p rc=$rc $(echo "$out" | head -1 | cut -c1-120)"
    if [ $rc -ne 0 ]; then echo "$out" | grep -E "violation tag|HARNESS|VIOLATION" | cut -c1-400 | head -6; fi
  done
done
