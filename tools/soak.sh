#!/bin/bash
# soak.sh <seed...>: run every registered quick check with the given seeds, print one line per run
cd /verif
props=$(python3 -c "import json;print(' '.join(c['property_id'] for c in json.load(open('MANIFEST.json'))['checks']))")
for seed in "$@"; do
  for p in $props; do
    out=$(VERIF_SEED=$seed bin/vcheck $p --tier quick 2>&1); rc=$?
    echo "seed=$seed $p rc=$rc $(echo "$out" | head -1 | cut -c1-120)"
    if [ $rc -ne 0 ]; then echo "$out" | grep -E "violation tag|HARNESS|VIOLATION" | cut -c1-400 | head -6; fi
  done
done
