#!/bin/bash
# runmut.sh <diff> <prop> [vcheck args...]: apply a mutant to /repo, run the check, revert. Prints CAUGHT/MISSED.
diff=$(realpath "$1"); prop=$2; shift 2
cd /repo || exit 2
if ! git diff --quiet; then echo "repo dirty, refusing"; exit 2; fi
git apply "$diff" || { echo "APPLY-FAILED $diff"; exit 2; }
out=$(cd /verif && VERIF_OUT_DIR=/tmp/verif-mut-out bin/vcheck "$prop" "$@" 2>&1); rc=$?
git -C /repo checkout -- . 
tag=$(echo "$out" | grep -m1 -o 'violation tag=[^ ]*')
case $rc in
 1) echo "CAUGHT $(basename $diff) $prop $tag";;
 0) echo "MISSED $(basename $diff) $prop";;
 *) echo "ERROR($rc) $(basename $diff) $prop"; echo "$out" | tail -15;;
esac
[ -n "$VERBOSE" ] && echo "$out"
exit 0
