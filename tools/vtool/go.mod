module vtool

go 1.25
