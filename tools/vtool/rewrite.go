package main

import (
	"bytes"
	"fmt"
	"go/ast"
	"go/parser"
	"go/token"
	"os"
	"sort"
	"strings"
)

type edit struct {
	start, end int
	text       string
}

func applyEdits(src []byte, edits []edit) []byte {
	sort.Slice(edits, func(i, j int) bool { return edits[i].start > edits[j].start })
	for _, e := range edits {
		src = append(src[:e.start:e.start], append([]byte(e.text), src[e.end:]...)...)
	}
	return src
}

// rewriteL2: every statement `x.Lock()` / `x.RLock()` becomes
//
//	simrt.Y(site); for !x.TryLock() { simrt.Y(site + ".spin") }
//
// on the same source line (line numbers are preserved). Only plain expression statements are
// rewritten; deferred or nested calls are left alone.
func rewriteL2(in, out, label string) error {
	src, err := os.ReadFile(in)
	if err != nil {
		return err
	}
	fset := token.NewFileSet()
	f, err := parser.ParseFile(fset, in, src, parser.ParseComments)
	if err != nil {
		return err
	}
	var edits []edit
	n := 0
	ast.Inspect(f, func(node ast.Node) bool {
		es, ok := node.(*ast.ExprStmt)
		if !ok {
			return true
		}
		call, ok := es.X.(*ast.CallExpr)
		if !ok || len(call.Args) != 0 {
			return true
		}
		sel, ok := call.Fun.(*ast.SelectorExpr)
		if !ok || (sel.Sel.Name != "Lock" && sel.Sel.Name != "RLock") {
			return true
		}
		recv := string(src[fset.Position(sel.X.Pos()).Offset:fset.Position(sel.X.End()).Offset])
		line := fset.Position(es.Pos()).Line
		site := fmt.Sprintf("%s:%d", label, line)
		try := "TryLock"
		if sel.Sel.Name == "RLock" {
			try = "TryRLock"
		}
		text := fmt.Sprintf("simrt.Y(%q); for !%s.%s() { simrt.Y(%q) }", site, recv, try, site+".spin")
		edits = append(edits, edit{fset.Position(es.Pos()).Offset, fset.Position(es.End()).Offset, text})
		n++
		return true
	})
	if n == 0 {
		return fmt.Errorf("%s: no lock statements found", in)
	}
	// import on the package line keeps line numbers intact
	pkgEnd := fset.Position(f.Name.End()).Offset
	edits = append(edits, edit{pkgEnd, pkgEnd, `; import simrt "github.com/grafana/dskit/zzverifrt"`})
	res := applyEdits(append([]byte(nil), src...), edits)
	if _, err := parser.ParseFile(token.NewFileSet(), out, res, 0); err != nil {
		return fmt.Errorf("generated file does not parse: %w", err)
	}
	return os.WriteFile(out, res, 0o644)
}

// rewriteSimos redirects the import "os" to the simulated disk package (same identifiers).
func rewriteSimos(in, out string) error {
	src, err := os.ReadFile(in)
	if err != nil {
		return err
	}
	fset := token.NewFileSet()
	f, err := parser.ParseFile(fset, in, src, parser.ImportsOnly)
	if err != nil {
		return err
	}
	var edits []edit
	for _, im := range f.Imports {
		if im.Path.Value == `"os"` && im.Name == nil {
			edits = append(edits, edit{fset.Position(im.Pos()).Offset, fset.Position(im.End()).Offset, `os "github.com/grafana/dskit/zzverifrt/simos"`})
		}
	}
	if len(edits) == 0 {
		if !bytes.Contains(src, []byte("os.")) {
			return os.WriteFile(out, src, 0o644)
		}
		return fmt.Errorf("%s: import \"os\" not found", in)
	}
	res := applyEdits(append([]byte(nil), src...), edits)
	_ = strings.TrimSpace
	return os.WriteFile(out, res, 0o644)
}
