package main

import (
	"bytes"
	"fmt"
	"go/ast"
	"go/parser"
	"go/token"
	"os"
	"sort"
	"strings"
)

type edit struct {
	start, end int
	text       string
}

func applyEdits(src []byte, edits []edit) []byte {
	sort.Slice(edits, func(i, j int) bool { return edits[i].start > edits[j].start })
	for _, e := range edits {
		src = append(src[:e.start:e.start], append([]byte(e.text), src[e.end:]...)...)
	}
	return src
}

// rewriteL2: every statement `x.Lock()` / `x.RLock()` becomes
//
//	simrt.Y(site); for !x.TryLock() { simrt.Y(site + ".spin") }
//
// on the same source line (line numbers are preserved), and every statement `x.Unlock()` /
// `x.RUnlock()` is followed by `simrt.Y(site + ".u")`. Only plain expression statements are
// rewritten; deferred or nested calls are left alone.
func rewriteL2(in, out, label string) error {
	src, err := os.ReadFile(in)
	if err != nil {
		return err
	}
	fset := token.NewFileSet()
	f, err := parser.ParseFile(fset, in, src, parser.ParseComments)
	if err != nil {
		return err
	}
	var edits []edit
	n := 0
	ast.Inspect(f, func(node ast.Node) bool {
		if ds, ok := node.(*ast.DeferStmt); ok {
			// `defer x.Unlock()`: a scheduling point right after the deferred unlock, i.e. between the return of a
			// function that worked under the lock and the caller's next statement
			if sel, ok := ds.Call.Fun.(*ast.SelectorExpr); ok && len(ds.Call.Args) == 0 && (sel.Sel.Name == "Unlock" || sel.Sel.Name == "RUnlock") {
				recv := string(src[fset.Position(sel.X.Pos()).Offset:fset.Position(sel.X.End()).Offset])
				site := fmt.Sprintf("%s:%d.du", label, fset.Position(ds.Pos()).Line)
				text := fmt.Sprintf("defer func() { %s.%s(); simrt.Y(%q) }()", recv, sel.Sel.Name, site)
				edits = append(edits, edit{fset.Position(ds.Pos()).Offset, fset.Position(ds.End()).Offset, text})
			}
			return true
		}
		es, ok := node.(*ast.ExprStmt)
		if !ok {
			return true
		}
		call, ok := es.X.(*ast.CallExpr)
		if !ok || len(call.Args) != 0 {
			return true
		}
		sel, ok := call.Fun.(*ast.SelectorExpr)
		if ok && (sel.Sel.Name == "Unlock" || sel.Sel.Name == "RUnlock") {
			// a scheduling point right after a lock was released (check-then-act windows between an
			// unlock and the statements that follow it); deferred unlocks are not statements and stay as they are
			line := fset.Position(es.Pos()).Line
			end := fset.Position(es.End()).Offset
			edits = append(edits, edit{end, end, fmt.Sprintf("; simrt.Y(%q)", fmt.Sprintf("%s:%d.u", label, line))})
			return true
		}
		if !ok || (sel.Sel.Name != "Lock" && sel.Sel.Name != "RLock") {
			return true
		}
		recv := string(src[fset.Position(sel.X.Pos()).Offset:fset.Position(sel.X.End()).Offset])
		line := fset.Position(es.Pos()).Line
		site := fmt.Sprintf("%s:%d", label, line)
		try := "TryLock"
		if sel.Sel.Name == "RLock" {
			try = "TryRLock"
		}
		text := fmt.Sprintf("simrt.Y(%q); for !%s.%s() { simrt.Y(%q) }", site, recv, try, site+".spin")
		edits = append(edits, edit{fset.Position(es.Pos()).Offset, fset.Position(es.End()).Offset, text})
		n++
		return true
	})
	if n == 0 {
		return fmt.Errorf("%s: no lock statements found", in)
	}
	// import on the package line keeps line numbers intact
	pkgEnd := fset.Position(f.Name.End()).Offset
	edits = append(edits, edit{pkgEnd, pkgEnd, `; import simrt "github.com/grafana/dskit/zzverifrt"`})
	res := applyEdits(append([]byte(nil), src...), edits)
	if _, err := parser.ParseFile(token.NewFileSet(), out, res, 0); err != nil {
		return fmt.Errorf("generated file does not parse: %w", err)
	}
	return os.WriteFile(out, res, 0o644)
}

// rewriteSimos redirects the import "os" to the simulated disk package (same identifiers).
func rewriteSimos(in, out string) error {
	src, err := os.ReadFile(in)
	if err != nil {
		return err
	}
	fset := token.NewFileSet()
	f, err := parser.ParseFile(fset, in, src, parser.ImportsOnly)
	if err != nil {
		return err
	}
	var edits []edit
	for _, im := range f.Imports {
		if im.Path.Value == `"os"` && im.Name == nil {
			edits = append(edits, edit{fset.Position(im.Pos()).Offset, fset.Position(im.End()).Offset, `os "github.com/grafana/dskit/zzverifrt/simos"`})
		}
	}
	if len(edits) == 0 {
		if !bytes.Contains(src, []byte("os.")) {
			return os.WriteFile(out, src, 0o644)
		}
		return fmt.Errorf("%s: import \"os\" not found", in)
	}
	res := applyEdits(append([]byte(nil), src...), edits)
	_ = strings.TrimSpace
	return os.WriteFile(out, res, 0o644)
}

// rewriteSel: every select statement that consists of two or more receive cases and has no default
// becomes a switch over simrt.Sel.Select (see simrt/rt.go), so that the simulator decides which ready
// case proceeds. Channel expressions are evaluated once, in source order, as in the original.
func rewriteSel(in, out, label string) error {
	src, err := os.ReadFile(in)
	if err != nil {
		return err
	}
	fset := token.NewFileSet()
	f, err := parser.ParseFile(fset, in, src, parser.ParseComments)
	if err != nil {
		return err
	}
	off := func(p token.Pos) int { return fset.Position(p).Offset }
	text := func(n ast.Node) string {
		return strings.ReplaceAll(string(src[off(n.Pos()):off(n.End())]), "\n", " ")
	}
	var edits []edit
	n := 0
	ast.Inspect(f, func(node ast.Node) bool {
		sel, ok := node.(*ast.SelectStmt)
		if !ok {
			return true
		}
		type cc struct {
			clause *ast.CommClause
			ch     ast.Expr
			assign *ast.AssignStmt
		}
		var cs []cc
		for _, st := range sel.Body.List {
			c := st.(*ast.CommClause)
			if c.Comm == nil {
				return true // default clause: not blocking, left alone
			}
			switch x := c.Comm.(type) {
			case *ast.ExprStmt:
				u, ok := x.X.(*ast.UnaryExpr)
				if !ok || u.Op != token.ARROW {
					return true
				}
				cs = append(cs, cc{c, u.X, nil})
			case *ast.AssignStmt:
				if len(x.Rhs) != 1 || len(x.Lhs) > 2 {
					return true
				}
				u, ok := x.Rhs[0].(*ast.UnaryExpr)
				if !ok || u.Op != token.ARROW {
					return true
				}
				cs = append(cs, cc{c, u.X, x})
			default:
				return true // send case
			}
		}
		if len(cs) < 2 {
			return true
		}
		line := fset.Position(sel.Pos()).Line
		k := fmt.Sprintf("%d_%d", line, n)
		site := fmt.Sprintf("%s:%d", label, line)
		var names, exprs []string
		for i, c := range cs {
			names = append(names, fmt.Sprintf("__c%s_%d", k, i))
			exprs = append(exprs, text(c.ch))
		}
		head := fmt.Sprintf("switch __r%s, %s := new(simrt.Sel), %s; __r%s.Select(%q, %s) {", k, strings.Join(names, ", "), strings.Join(exprs, ", "), k, site, strings.Join(names, ", "))
		edits = append(edits, edit{off(sel.Pos()), off(sel.Body.Lbrace) + 1, head})
		// a select whose cases all return is a terminating statement; a switch needs a default for that
		edits = append(edits, edit{off(sel.Body.Rbrace), off(sel.Body.Rbrace), `default: panic("simrt: select index out of range"); `})
		for i, c := range cs {
			t := fmt.Sprintf("case %d:", i)
			if c.assign != nil {
				var lhs []string
				for _, l := range c.assign.Lhs {
					lhs = append(lhs, text(l))
				}
				fn := "simrt.Val"
				if len(lhs) == 2 {
					fn = "simrt.Val2"
				}
				t += fmt.Sprintf(" %s %s %s(%s, __r%s);", strings.Join(lhs, ", "), c.assign.Tok.String(), fn, names[i], k)
			}
			edits = append(edits, edit{off(c.clause.Pos()), off(c.clause.Colon) + 1, t})
		}
		n++
		return true
	})
	if n == 0 {
		return fmt.Errorf("%s: no rewritable select statements found", in)
	}
	has := false
	for _, im := range f.Imports {
		if im.Path.Value == `"github.com/grafana/dskit/zzverifrt"` {
			has = true
		}
	}
	if !has {
		pkgEnd := off(f.Name.End())
		edits = append(edits, edit{pkgEnd, pkgEnd, `; import simrt "github.com/grafana/dskit/zzverifrt"`})
	}
	res := applyEdits(append([]byte(nil), src...), edits)
	if _, err := parser.ParseFile(token.NewFileSet(), out, res, 0); err != nil {
		return fmt.Errorf("generated file does not parse: %w", err)
	}
	return os.WriteFile(out, res, 0o644)
}
