// vtool generates instrumented copies of dskit source files for the simulation build (overlay only;
// /repo is never modified).
//
//	vtool l2 <in.go> <out.go> <label>    every x.Lock()/x.RLock() statement yields to the simulator first
//	vtool sel <in.go> <out.go> <label>   receive-only select statements let the simulator pick among ready cases
//	vtool simos <in.go> <out.go>         import "os" is redirected to the simulated disk package
package main

import (
	"fmt"
	"os"
)

func main() {
	if len(os.Args) < 4 {
		fmt.Fprintln(os.Stderr, "usage: vtool l2|simos in out [label]")
		os.Exit(2)
	}
	var err error
	switch os.Args[1] {
	case "l2":
		label := os.Args[3]
		if len(os.Args) > 4 {
			label = os.Args[4]
		}
		err = rewriteL2(os.Args[2], os.Args[3], label)
	case "sel":
		label := os.Args[3]
		if len(os.Args) > 4 {
			label = os.Args[4]
		}
		err = rewriteSel(os.Args[2], os.Args[3], label)
	case "simos":
		err = rewriteSimos(os.Args[2], os.Args[3])
	default:
		err = fmt.Errorf("unknown command %s", os.Args[1])
	}
	if err != nil {
		fmt.Fprintln(os.Stderr, err)
		os.Exit(1)
	}
}
