#!/bin/bash
# tryseed.sh <seed dir> [budget_s] [prop override]: applies the seed's patch.diff to a scratch worktree of /repo HEAD and runs the
# property's check against it (output kept out of /verif). Prints CAUGHT/MISSED.
d=$(realpath "$1"); budget=${2:-40}
prop=${3:-$(python3 -c "import json;print(json.load(open('$d/meta.json'))['property'])")}
wt=/tmp/ts-$(basename $d)-$$
git -C /repo worktree add -q --detach $wt HEAD || exit 2
trap "git -C /repo worktree remove --force $wt" EXIT
( cd $wt && git apply "$d/patch.diff" ) || { echo "APPLY-FAILED $d"; exit 2; }
o=$(cd /verif && VERIF_REPO=$wt VERIF_OUT_DIR=/tmp/verif-mut-out bin/vcheck $prop --budget $budget 2>&1); rc=$?
tag=$(echo "$o" | grep -m1 -o 'violation tag=[^ ]*' | sed 's/violation tag=//')
case $rc in 1) echo "CAUGHT $(basename $d) by $prop ($tag)";; 0) echo "MISSED $(basename $d) by $prop";; *) echo "ERROR rc=$rc $(basename $d)"; echo "$o" | tail -12;; esac
[ -n "$VERBOSE" ] && echo "$o" | grep -A3 "violation tag" | head -20
exit 0
