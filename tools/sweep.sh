#!/bin/bash
# sweep.sh [budget_s] [prop...]: every mutant (mutants/<prop>/*.diff) and every kept seeded change (seeded/*/patch.diff)
# is applied to a scratch worktree of /repo HEAD (never to /repo itself), the property's check is run against
# that worktree (VERIF_REPO), and the result is appended to /verif/sensitivity.md. The worktree is removed at the end.
budget=${1:-40}; shift
props="$@"
wt=/tmp/sweep-$$
git -C /repo worktree add -q --detach $wt HEAD || exit 2
trap "git -C /repo worktree remove --force $wt" EXIT
out=/verif/sensitivity.md
{
echo "# Sensitivity sweep"
echo
echo "Every change below compiles and passes the existing tests of the touched package (seeded changes: confirmed with tools/verify_seed.sh;"
echo "own mutants: built by the check itself). Each is applied to a scratch worktree of /repo HEAD ($(git -C /repo rev-parse --short HEAD)), the"
echo "property's quick check is run with a budget of ${budget}s (seed 20260923, 16 workers), result = first violation tag."
echo
echo "| property | change | origin | result |"
echo "|---|---|---|---|"
} > $out.tmp
run() { # prop diff origin name
  local prop=$1 diff=$2 origin=$3 name=$4
  if [ -n "$props" ] && ! echo " $props " | grep -q " $prop "; then return; fi
  ( cd $wt && git apply "$diff" ) || { echo "| $prop | $name | $origin | APPLY-FAILED |" >> $out.tmp; return; }
  o=$(cd /verif && VERIF_REPO=$wt VERIF_OUT_DIR=/tmp/verif-mut-out bin/vcheck $prop --budget $budget 2>&1); rc=$?
  git -C $wt checkout -q -- .
  tag=$(echo "$o" | grep -m1 -o 'violation tag=[^ ]*' | sed 's/violation tag=//')
  case $rc in 1) res="caught ($tag)";; 0) res="MISSED";; *) res="ERROR rc=$rc";; esac
  echo "| $prop | $name | $origin | $res |" >> $out.tmp
  echo "$prop $name $origin $res"
}
for d in /verif/mutants/*/; do
  [ -n "$SWEEP_SEEDED_ONLY" ] && break
  prop=$(basename $d)
  for f in $d*.diff; do [ -f "$f" ] && run $prop $f "own mutant" $(basename $f .diff); done
done
for d in /verif/seeded/*/; do
  [ -f $d/patch.diff ] || continue
  prop=$(python3 -c "import json;print(json.load(open('$d/meta.json'))['property'])")
  run $prop $d/patch.diff "seeded by sub-agent" $(basename $d)
done
if [ -z "$props" ]; then mv $out.tmp $out; else cat $out.tmp; rm $out.tmp; fi
