#!/usr/bin/env python3
"""dettrace.py <prop> <scenario> <seed> [n]: run one seed n times in fresh processes (alternating GOMAXPROCS 1/4/16),
keep the full traces and print the first difference between any two of them. Debugging aid for determinism work."""
import importlib.machinery, importlib.util, json, os, subprocess, sys
V = os.path.dirname(os.path.dirname(os.path.abspath(__file__)))
ld = importlib.machinery.SourceFileLoader("vcheck", os.path.join(V, "bin", "vcheck"))
spec = importlib.util.spec_from_loader("vcheck", ld)
vc = importlib.util.module_from_spec(spec)
ld.exec_module(vc)

prop, scen, seed = sys.argv[1], sys.argv[2], int(sys.argv[3])
n = int(sys.argv[4]) if len(sys.argv) > 4 else 6
binp = os.environ.get("DET_BIN")
if not binp:
    binp, _ = vc.build_world(vc.PROPS[prop]["world"])
d = "/tmp/dettrace-%d" % os.getpid()
os.makedirs(d, exist_ok=True)
traces = []
for i in range(n):
    job = {"mode": "replay", "prop": prop, "scenario": scen, "seed": seed, "run_index": 0, "choices": [], "use_seed": True,
           "known": [], "attempts": 1, "want_hash": "", "want_tag": "", "out": "%s/r%d.json" % (d, i)}
    os.environ["VERIF_GOMAXPROCS"] = ["1", "4", "16"][i % 3]
    p = vc.run_job(binp, job, 120)
    out, _ = p.communicate(timeout=300)
    r = json.load(open(job["out"]))
    traces.append(r["trace"])
    print(i, r["trace_hash"], len(r["trace"]), (r.get("violation") or {}).get("tag"))
base = traces[0]
for i, t in enumerate(traces[1:], 1):
    if t != base:
        k = 0
        while k < len(t) and k < len(base) and t[k] == base[k]:
            k += 1
        print("--- run 0 vs run %d differ at line %d" % (i, k))
        for j in range(max(0, k - 12), min(len(base), k + 6)):
            print("A", base[j][:300])
        print("...")
        for j in range(k, min(len(t), k + 6)):
            print("B", t[j][:300])
        break
else:
    print("all identical")
subprocess.run(["rm", "-rf", d])
