#!/bin/bash
# verify_seed.sh <seed dir containing patch.diff, meta.json, demo file(s)>
# Confirms in a scratch worktree: demo passes without patch; with patch: builds, package tests pass, demo fails.
set -u
d=$(realpath "$1"); name=$(basename $(dirname $d))-$(basename $d)
wt=/tmp/vs-$name-$$
export GOFLAGS=-mod=mod GOPROXY=off
git -C /repo worktree add -q --detach $wt HEAD || exit 2
trap "git -C /repo worktree remove --force $wt" EXIT
cd $wt
demo_path=$(python3 -c "import json;print(json.load(open('$d/meta.json'))['demo_path_in_repo'])")
demo_cmd=$(python3 -c "import json;print(json.load(open('$d/meta.json'))['demo_cmd'].replace('<repo root>','.'))")
pkgs=$(python3 -c "import json;print(' '.join(json.load(open('$d/meta.json'))['touched_packages']))")
demo_src=$(ls $d/*.go | head -1)
demo_path=$(echo "$demo_path" | awk '{print $1}')
mkdir -p "$(dirname "$demo_path")"; cp "$demo_src" "$demo_path"
echo "== $name: demo without patch"; (eval "$demo_cmd") >/tmp/vs-$$.log 2>&1; r1=$?; tail -2 /tmp/vs-$$.log
git apply $d/patch.diff || { echo "RESULT $name APPLY-FAILED"; exit 1; }
echo "== demo with patch"; (eval "$demo_cmd") >/tmp/vs-$$.log 2>&1; r2=$?; tail -2 /tmp/vs-$$.log
rm -f "$demo_path"
echo "== build"; go build ./... ; r3=$?
echo "== package tests with patch"; r4=0
for p in $pkgs; do go test -vet=off -count=1 -timeout 30m $p > /tmp/vs-$$.pkg.log 2>&1; rc=$?; grep -E "^(--- FAIL|FAIL|ok|panic:)" /tmp/vs-$$.pkg.log | head -8; [ $rc -ne 0 ] && r4=1; rm -f /tmp/vs-$$.pkg.log; done
echo "RESULT $name demo_without=$r1 demo_with=$r2 build=$r3 tests_with=$r4  (want 0, nonzero, 0, 0)"
rm -f /tmp/vs-$$.log
