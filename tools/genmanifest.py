#!/usr/bin/env python3
"""Regenerates /verif/MANIFEST.json from bin/worlds.py (single source of truth for claimed checks)."""
import json, os, sys
V = os.path.dirname(os.path.dirname(os.path.abspath(__file__)))
sys.path.insert(0, os.path.join(V, "bin"))
from worlds import PROPS, NOT_APPLICABLE, HOOK_COMMITS
checks = []
for pid in sorted(PROPS):
    p = PROPS[pid]
    checks.append({
        "property_id": pid,
        "quick_cmd": "bin/vcheck %s --tier quick" % pid,
        "thorough_cmd": "bin/vcheck %s --tier thorough" % pid,
        "evidence_file": "/verif/evidence/%s.json" % pid,
        "replay_cmd_template": "bin/vcheck replay {path}",
        "engine": "sim",
        "level_claimed": {"category": p["level"], "text": p["level_text"], "design_ref": p["design_ref"]},
        "level_note": p["level_note"],
        "technique": p.get("technique", "deterministic simulation with fault injection: seeded search over schedules and fault sequences, invariants + reference model per step, shrunk choice-vector replay"),
    })
m = {
    "version": 1,
    "setup_cmd": "bin/vcheck setup",
    "hooks": {
        "guard": "none: no source hook is committed; seams are dskit's own interfaces plus build-time overlay files (go build -overlay) generated from the current /repo tree",
        "enable": "bin/vcheck builds each world with `go1.26.8 test -c -overlay=<generated> -modfile=<copy of /repo/go.mod>` from /repo's working tree",
        "baseline_off_cmd": json.load(open("/root/.vp/BASELINE.json"))["cmd"],
        "source_commits": HOOK_COMMITS,
        "add_only": True,
    },
    "engines": [{"name": "sim", "path": "/verif/sim", "serves_properties": sorted(PROPS),
                 "kind_free_text": "deterministic simulator: testing/synctest bubble (virtual clock, quiescence), parked tasks released one at a time by a seeded chooser, lock-point yields and simulator-decided select statements in generated (overlay-only) copies of dskit files, fault injection at dskit's interface seams, choice-vector replay + shrinking; driver bin/vcheck fans out 16 worker processes"}],
    "checks": checks,
    "not_applicable": [{"property_id": k, "reason": v} for k, v in sorted(NOT_APPLICABLE.items())],
    "notes": "See DESIGN.md. Exit codes: 0 held, 1 VIOLATION, 2 harness/build/watchdog trouble. VERIF_SEED, VERIF_TIER, VERIF_BUDGET_S, VERIF_WORKERS are honoured.",
}
json.dump(m, open(os.path.join(V, "MANIFEST.json"), "w"), indent=1)
print("MANIFEST.json: %d checks, %d not applicable" % (len(checks), len(m["not_applicable"])))
