#!/usr/bin/env python3
"""mkmut.py <name> <prop> <repo-file> <<< 'OLD\n====\nNEW'  -> writes /verif/mutants/<prop>/<name>.diff (repo left clean)"""
import os, subprocess, sys
name, prop, rel = sys.argv[1:4]
old, new = sys.stdin.read().split("\n====\n")
old = old.strip("\n"); new = new.strip("\n")
p = os.path.join("/repo", rel)
s = open(p).read()
if s.count(old) != 1:
    sys.exit("pattern occurs %d times in %s" % (s.count(old), rel))
open(p, "w").write(s.replace(old, new))
d = subprocess.run(["git", "-C", "/repo", "diff", "--", rel], capture_output=True, text=True).stdout
subprocess.run(["git", "-C", "/repo", "checkout", "--", rel], check=True)
out = "/verif/mutants/%s/%s.diff" % (prop, name)
os.makedirs(os.path.dirname(out), exist_ok=True)
open(out, "w").write(d)
print("wrote", out)
