package sim

import (
	"encoding/binary"
	"encoding/json"
	"fmt"
	"math/rand"
	"os"
	"runtime/debug"
	"sort"
	"strings"
	"testing"
	"testing/synctest"
	"time"

	simrt "github.com/grafana/dskit/zzverifrt"
)

// Scenario is one simulated workload + oracle for a property.
type Scenario struct {
	Prop   string
	Name   string
	Weight int
	Run    func(s *Sim)
}

var registry []*Scenario

func Register(prop, name string, weight int, run func(s *Sim)) {
	if weight <= 0 {
		weight = 1
	}
	registry = append(registry, &Scenario{prop, name, weight, run})
}

// SelfTests are model self-tests executed once per worker before exploring; failure => exit 2.
var selfTests []func() error

func RegisterSelfTest(f func() error) { selfTests = append(selfTests, f) }

// Job is what the driver asks a worker process to do.
type Job struct {
	Mode     string      `json:"mode"` // explore | replay
	Prop     string      `json:"prop"`
	Tier     string      `json:"tier"`
	BaseSeed uint64      `json:"base_seed"`
	Worker   int         `json:"worker"`
	Workers  int         `json:"workers"`
	BudgetS  float64     `json:"budget_s"`
	MaxRuns  int         `json:"max_runs"`
	Out      string      `json:"out"`
	Known    []KnownSpec `json:"known"`
	// replay
	Scenario string  `json:"scenario"`
	Seed     uint64  `json:"seed"`
	RunIndex int     `json:"run_index"`
	Choices  []int32 `json:"choices"`
	UseSeed  bool    `json:"use_seed"` // replay from seed instead of choices (crash replays)
	Progress string  `json:"progress"` // file receiving the id of the run in progress
	Attempts int     `json:"attempts"`
	WantHash string  `json:"want_hash"`
	WantTag  string  `json:"want_tag"`
}

// Found is a violation (or known-finding hit) with its minimised replay data.
type Found struct {
	Prop      string    `json:"property"`
	Scenario  string    `json:"scenario"`
	Seed      uint64    `json:"seed"`
	RunIndex  int       `json:"run_index"`
	Viol      Violation `json:"violation"`
	Choices   []int32   `json:"choices"`
	OrigLen   int       `json:"orig_choices_len"`
	Labels    []string  `json:"decoded_choices,omitempty"`
	Trace     []string  `json:"trace_tail,omitempty"`
	TraceHash string    `json:"trace_hash"`
	ShrinkRun int       `json:"shrink_runs"`
	Stable    bool      `json:"stable_replay"`
	IsKnown   bool      `json:"known"`
}

// WorkerOut is what a worker writes.
type WorkerOut struct {
	Prop        string         `json:"property"`
	Worker      int            `json:"worker"`
	Runs        int            `json:"runs"`
	Steps       int64          `json:"steps"`
	VirtNS      int64          `json:"virt_ns"`
	WallS       float64        `json:"wall_s"`
	Faults      map[string]int `json:"faults"`
	Probes      map[string]int `json:"probes"`
	Scenarios   map[string]int `json:"scenarios"`
	Nontrivial  int            `json:"nontrivial_runs"`
	DetChecked  int            `json:"det_checked"`
	DetMismatch int            `json:"det_mismatch"`
	DetExample  []string       `json:"det_example,omitempty"`
	Found       []Found        `json:"found"`
	Samples     [][]string     `json:"samples"`
	SigFile     string         `json:"sig_file"`
	StateFile   string         `json:"state_file"`
	HarnessErr  string         `json:"harness_error,omitempty"`
	ViolRuns    int            `json:"violating_runs"`
	KnownRuns   int            `json:"known_runs"`
}

func splitmix(x uint64) uint64 {
	x += 0x9e3779b97f4a7c15
	x = (x ^ (x >> 30)) * 0xbf58476d1ce4e5b9
	x = (x ^ (x >> 27)) * 0x94d049bb133111eb
	return x ^ (x >> 31)
}

func strHash(s string) uint64 {
	h := uint64(14695981039346656037)
	for i := 0; i < len(s); i++ {
		h ^= uint64(s[i])
		h *= 1099511628211
	}
	return h
}

func runSeed(base uint64, prop string, idx int) uint64 {
	return splitmix(splitmix(base^strHash(prop)) + uint64(idx))
}

type runOpts struct {
	keepTrace, keepLabels bool
	runIndex              int
}

// harnessPanic is set when the root panicked with something that is not an oracle abort.
type execResult struct {
	s            *Sim
	harnessPanic string
}

func execute(t *testing.T, sc *Scenario, seed uint64, feed []int32, useFeed bool, known []KnownSpec, o runOpts) (res execResult) {
	var s *Sim
	func() {
		defer func() {
			if r := recover(); r != nil {
				msg := fmt.Sprint(r)
				if strings.Contains(msg, "deadlock") {
					return // leaked (crashed / abandoned) goroutines at the end of the bubble: expected
				}
				res.harnessPanic = msg + "\n" + string(debug.Stack())
			}
		}()
		synctest.Test(t, func(t *testing.T) {
			s = newSim(sc.Prop, sc.Name, seed, feed, useFeed, known)
			s.KeepTrace, s.KeepLabels = o.keepTrace, o.keepLabels
			s.RunIndex = o.runIndex
			s.parkSignal = make(chan struct{}, 1)
			s.rootActive = true
			s.rootGoid = goid()
			s.start = time.Now()
			simrt.Hook = nil
			s.selSalt = splitmix(seed ^ 0x5e1ec7)
			if s.selSalt%4 == 0 {
				s.selSalt = 0
			}
			simrt.SelHook = s.selOrder
			rand.Seed(int64(seed)) // global math/rand is used by dskit (needs GODEBUG=randseednop=0)
			func() {
				defer func() {
					if r := recover(); r != nil {
						if _, ok := r.(abortRun); ok {
							return
						}
						res.harnessPanic = fmt.Sprint(r) + "\n" + string(debug.Stack())
					}
				}()
				sc.Run(s)
			}()
			s.finish()
		})
	}()
	res.s = s
	return res
}

// finish ends the run: cleanup actions, then every parked task is blocked forever.
func (s *Sim) finish() {
	defer func() { recover() }()
	s.endElapsed = time.Since(s.start)
	s.mu.Lock()
	s.ending = true
	s.rootActive = true
	s.mu.Unlock()
	for i := len(s.cleanups) - 1; i >= 0; i-- {
		func() {
			defer func() { recover() }()
			s.cleanups[i]()
		}()
	}
	s.mu.Lock()
	ts := s.parked
	s.parked = map[string]*task{}
	s.rootActive = false
	s.mu.Unlock()
	for _, t := range ts {
		t.kill = true
		close(t.ch)
	}
	synctest.Wait()
	simrt.Hook = nil
	simrt.SelHook = nil
}

func (s *Sim) TraceHash() string { return fmt.Sprintf("%016x", s.hash) }

func (s *Sim) trace() []string {
	if s.KeepTrace {
		return s.traceAll
	}
	t := s.traceTail
	if len(t) > traceTailMax {
		t = t[len(t)-traceTailMax:]
	}
	return t
}

func trimZeros(c []int32) []int32 {
	n := len(c)
	for n > 0 && c[n-1] == 0 {
		n--
	}
	return append([]int32(nil), c[:n]...)
}

// shrink minimises a failing choice vector while the same oracle tag (and key) keeps firing.
func shrink(t *testing.T, sc *Scenario, seed uint64, base []int32, want Violation, known []KnownSpec, maxRuns int, deadline time.Time, runIndex int) ([]int32, int) {
	runs := 0
	try := func(c []int32) ([]int32, bool) {
		if runs >= maxRuns || time.Now().After(deadline) {
			return nil, false
		}
		runs++
		for attempt := 0; attempt < 2; attempt++ {
			r := execute(t, sc, seed, c, true, known, runOpts{runIndex: runIndex})
			if r.s != nil && r.harnessPanic == "" && r.s.Viol != nil && r.s.Viol.Tag == want.Tag && r.s.Viol.Key == want.Key {
				return trimZeros(r.s.Choices), true
			}
		}
		return nil, false
	}
	cur := trimZeros(base)
	if c, ok := try(cur); ok {
		cur = c
	} else {
		return cur, runs
	}
	// 1. truncation (binary search for a short failing prefix)
	lo, hi := 0, len(cur)
	for lo < hi {
		mid := (lo + hi) / 2
		if c, ok := try(cur[:mid]); ok {
			cur = c
			hi = len(cur)
			if mid < hi {
				hi = mid
			}
		} else {
			lo = mid + 1
		}
	}
	// 2. chunk deletion
	for size := len(cur) / 2; size >= 1; size /= 2 {
		for i := 0; i+size <= len(cur); {
			cand := append(append([]int32(nil), cur[:i]...), cur[i+size:]...)
			if c, ok := try(cand); ok && len(c) < len(cur) {
				cur = c
			} else {
				i += size
			}
			if runs >= maxRuns {
				break
			}
		}
	}
	// 3. zero, then halve, then decrement single values
	for pass := 0; pass < 2; pass++ {
		for i := 0; i < len(cur); i++ {
			if cur[i] == 0 {
				continue
			}
			for _, nv := range []int32{0, cur[i] / 2, cur[i] - 1} {
				if nv >= cur[i] {
					continue
				}
				cand := append([]int32(nil), cur...)
				cand[i] = nv
				if c, ok := try(cand); ok {
					cur = c
					break
				}
			}
			if i >= len(cur) {
				break
			}
		}
	}
	return cur, runs
}

func writeU64File(path string, set map[uint64]struct{}) {
	keys := make([]uint64, 0, len(set))
	for k := range set {
		keys = append(keys, k)
	}
	sort.Slice(keys, func(i, j int) bool { return keys[i] < keys[j] })
	buf := make([]byte, 8*len(keys))
	for i, k := range keys {
		binary.LittleEndian.PutUint64(buf[i*8:], k)
	}
	_ = os.WriteFile(path, buf, 0o644)
}

func pickScenario(scs []*Scenario, idx int) *Scenario {
	total := 0
	for _, sc := range scs {
		total += sc.Weight
	}
	v := int(splitmix(uint64(idx)*2654435761+17) % uint64(total))
	for _, sc := range scs {
		if v < sc.Weight {
			return sc
		}
		v -= sc.Weight
	}
	return scs[0]
}

// Main is the body of the single Test function of every world binary.
func Main(t *testing.T) {
	jobPath := os.Getenv("VERIF_JOB")
	if jobPath == "" {
		t.Skip("VERIF_JOB not set")
	}
	raw, err := os.ReadFile(jobPath)
	if err != nil {
		fmt.Fprintln(os.Stderr, "HARNESS-ERROR: cannot read job:", err)
		os.Exit(3)
	}
	var job Job
	if err := json.Unmarshal(raw, &job); err != nil {
		fmt.Fprintln(os.Stderr, "HARNESS-ERROR: bad job:", err)
		os.Exit(3)
	}
	var scs []*Scenario
	for _, sc := range registry {
		if sc.Prop == job.Prop {
			scs = append(scs, sc)
		}
	}
	if len(scs) == 0 {
		fmt.Fprintln(os.Stderr, "HARNESS-ERROR: no scenario for", job.Prop)
		os.Exit(3)
	}
	for _, st := range selfTests {
		if err := st(); err != nil {
			fmt.Fprintln(os.Stderr, "HARNESS-ERROR: model self-test failed:", err)
			os.Exit(3)
		}
	}
	switch job.Mode {
	case "explore":
		explore(t, &job, scs)
	case "replay":
		replay(t, &job, scs)
	default:
		fmt.Fprintln(os.Stderr, "HARNESS-ERROR: bad mode", job.Mode)
		os.Exit(3)
	}
}

func writeOut(path string, v any) {
	b, _ := json.Marshal(v)
	if err := os.WriteFile(path+".tmp", b, 0o644); err == nil {
		_ = os.Rename(path+".tmp", path)
	}
}

func explore(t *testing.T, job *Job, scs []*Scenario) {
	start := time.Now()
	deadline := start.Add(time.Duration(job.BudgetS * float64(time.Second)))
	out := &WorkerOut{Prop: job.Prop, Worker: job.Worker, Faults: map[string]int{}, Probes: map[string]int{}, Scenarios: map[string]int{}}
	sigs := map[uint64]struct{}{}
	states := map[uint64]struct{}{}
	seenTags := map[string]int{}
	var prog *os.File
	if job.Progress != "" {
		prog, _ = os.OpenFile(job.Progress, os.O_CREATE|os.O_WRONLY|os.O_TRUNC, 0o644)
	}
	for k := 0; ; k++ {
		if job.MaxRuns > 0 && k >= job.MaxRuns {
			break
		}
		if time.Now().After(deadline) {
			break
		}
		idx := job.Worker + k*job.Workers
		sc := pickScenario(scs, idx)
		seed := runSeed(job.BaseSeed, job.Prop, idx)
		if prog != nil {
			line := fmt.Sprintf("%-20s %020d %010d\n", sc.Name, seed, idx)
			_, _ = prog.WriteAt([]byte(line), 0)
		}
		r := execute(t, sc, seed, nil, false, job.Known, runOpts{runIndex: idx})
		if r.harnessPanic != "" || r.s == nil {
			out.HarnessErr = fmt.Sprintf("scenario %s seed %d: %s", sc.Name, seed, r.harnessPanic)
			break
		}
		s := r.s
		out.Runs++
		out.Steps += int64(s.Steps)
		out.VirtNS += int64(s.Elapsed0())
		out.Scenarios[sc.Name]++
		for f, n := range s.Faults {
			out.Faults[f] += n
		}
		for p, n := range s.Probes {
			out.Probes[p] += n
		}
		if s.Nontrivial {
			out.Nontrivial++
			if len(sigs) < 3_000_000 {
				sg := s.sigHash
				if s.SigFromTrace {
					sg = s.hash
				}
				sigs[sg^strHash(sc.Name)] = struct{}{}
			}
			if len(out.Samples) < 3 && len(s.Sample) > 0 {
				out.Samples = append(out.Samples, append([]string{"scenario=" + sc.Name, fmt.Sprintf("seed=%d", seed)}, s.Sample...))
			}
		}
		if len(states) < 3_000_000 {
			for h := range s.States {
				states[h] = struct{}{}
			}
		}
		// determinism spot check: re-execute from the recorded choice vector
		if k%64 == 5 && s.Viol == nil {
			r2 := execute(t, sc, seed, s.Choices, true, job.Known, runOpts{runIndex: idx})
			out.DetChecked++
			if r2.s == nil || r2.s.hash != s.hash {
				out.DetMismatch++
				if out.DetExample == nil {
					a := execute(t, sc, seed, s.Choices, true, job.Known, runOpts{keepTrace: true, runIndex: idx})
					b := execute(t, sc, seed, s.Choices, true, job.Known, runOpts{keepTrace: true, runIndex: idx})
					for tries := 0; tries < 20 && a.s != nil && b.s != nil && a.s.hash == b.s.hash; tries++ {
						b = execute(t, sc, seed, s.Choices, true, job.Known, runOpts{keepTrace: true, runIndex: idx})
					}
					if a.s != nil && b.s != nil {
						ta, tb := a.s.traceAll, b.s.traceAll
						i := 0
						for i < len(ta) && i < len(tb) && ta[i] == tb[i] {
							i++
						}
						lo := i - 6
						if lo < 0 {
							lo = 0
						}
						ex := []string{fmt.Sprintf("scenario=%s seed=%d first difference at trace line %d", sc.Name, seed, i)}
						for j := lo; j < i+3; j++ {
							if j < len(ta) {
								ex = append(ex, "A "+ta[j])
							}
							if j < len(tb) && j >= i {
								ex = append(ex, "B "+tb[j])
							}
						}
						out.DetExample = ex
					}
				}
			}
		}
		record := func(v Violation, isKnown bool) {
			tagKey := v.Tag + "|" + v.Key
			seenTags[tagKey]++
			if seenTags[tagKey] > 1 || len(out.Found) >= 6 {
				return
			}
			f := Found{Prop: job.Prop, Scenario: sc.Name, Seed: seed, RunIndex: idx, Viol: v, OrigLen: len(s.Choices), IsKnown: isKnown}
			choices := trimZeros(s.Choices)
			if !isKnown {
				sd := time.Now().Add(40 * time.Second)
				choices, f.ShrinkRun = shrink(t, sc, seed, choices, v, job.Known, 400, sd, idx)
			}
			// final in-process replay with full labels and trace
			rr := execute(t, sc, seed, choices, true, job.Known, runOpts{keepTrace: false, keepLabels: true, runIndex: idx})
			if rr.s != nil {
				var got *Violation
				if isKnown {
					for i := range rr.s.Known {
						if rr.s.Known[i].Tag == v.Tag && rr.s.Known[i].Key == v.Key {
							got = &rr.s.Known[i]
						}
					}
				} else {
					got = rr.s.Viol
				}
				if got != nil && got.Tag == v.Tag {
					f.Stable = true
					f.Viol = *got
				}
				f.Labels = rr.s.Labels
				f.Trace = rr.s.trace()
				f.TraceHash = rr.s.TraceHash()
			}
			f.Choices = choices
			out.Found = append(out.Found, f)
		}
		if s.Viol != nil {
			out.ViolRuns++
			record(*s.Viol, false)
		}
		if len(s.Known) > 0 {
			out.KnownRuns++
			for _, kv := range s.Known {
				record(kv, true)
			}
		}
	}
	out.WallS = time.Since(start).Seconds()
	out.SigFile = job.Out + ".sigs"
	out.StateFile = job.Out + ".states"
	writeU64File(out.SigFile, sigs)
	writeU64File(out.StateFile, states)
	writeOut(job.Out, out)
	if out.HarnessErr != "" {
		fmt.Fprintln(os.Stderr, "HARNESS-ERROR:", out.HarnessErr)
		os.Exit(3)
	}
}

// Elapsed0 is the virtual duration of the finished run.
func (s *Sim) Elapsed0() time.Duration { return s.endElapsed }

// ReplayOut is what a replay worker writes.
type ReplayOut struct {
	Reproduced bool       `json:"reproduced"`
	Attempts   int        `json:"attempts"`
	HashMatch  bool       `json:"hash_match"`
	Viol       *Violation `json:"violation"`
	Known      []Violation `json:"known"`
	TraceHash  string     `json:"trace_hash"`
	Labels     []string   `json:"decoded_choices"`
	Trace      []string   `json:"trace"`
	HarnessErr string     `json:"harness_error,omitempty"`
}

func replay(t *testing.T, job *Job, scs []*Scenario) {
	var sc *Scenario
	for _, x := range scs {
		if x.Name == job.Scenario {
			sc = x
		}
	}
	if sc == nil {
		fmt.Fprintln(os.Stderr, "HARNESS-ERROR: unknown scenario", job.Scenario)
		os.Exit(3)
	}
	attempts := job.Attempts
	if attempts <= 0 {
		attempts = 1
	}
	out := &ReplayOut{}
	for a := 1; a <= attempts; a++ {
		r := execute(t, sc, job.Seed, job.Choices, !job.UseSeed, job.Known, runOpts{keepTrace: true, keepLabels: true, runIndex: job.RunIndex})
		out.Attempts = a
		if r.harnessPanic != "" || r.s == nil {
			out.HarnessErr = r.harnessPanic
			break
		}
		s := r.s
		tagOK := false
		if s.Viol != nil && (job.WantTag == "" || s.Viol.Tag == job.WantTag) {
			tagOK = true
		}
		for _, kv := range s.Known {
			if kv.Tag == job.WantTag {
				tagOK = true
			}
		}
		hashOK := job.WantHash == "" || job.WantHash == s.TraceHash()
		if out.Reproduced && !tagOK {
			continue // keep the attempt that reproduced the violation
		}
		out.Viol = s.Viol
		out.Known = s.Known
		out.TraceHash = s.TraceHash()
		out.Labels = s.Labels
		out.Trace = s.trace()
		out.HashMatch = hashOK
		if tagOK {
			out.Reproduced = true
			if hashOK {
				break
			}
		}
	}
	writeOut(job.Out, out)
	if out.HarnessErr != "" {
		fmt.Fprintln(os.Stderr, "HARNESS-ERROR:", out.HarnessErr)
		os.Exit(3)
	}
}
