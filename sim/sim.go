// Package sim is the deterministic-simulation engine used by every world in /verif.
//
// One run = one testing/synctest bubble. The bubble's root goroutine is the scheduler: it waits
// for quiescence (synctest.Wait), evaluates invariants, draws one decision from the choice source
// and performs it (release exactly one parked task, perform one harness action, or advance the
// virtual clock). Every decision goes through Choose, which either draws from a PRNG derived from
// the run seed or reads the next element of a replayed choice vector. The recorded choice vector
// is the replay file; the seed is only a compact way to produce one.
package sim

import (
	"fmt"
	"hash/fnv"
	"math/rand"
	"os"
	"runtime"
	"sort"
	"strings"
	"sync"
	"testing/synctest"
	"time"

	simrt "github.com/grafana/dskit/zzverifrt"
)

// Violation describes the first oracle failure of a run.
type Violation struct {
	Tag    string `json:"tag"`   // oracle tag, e.g. "return-without-quorum"
	Key    string `json:"key"`   // input class used for known-finding matching ("" = none)
	Msg    string `json:"msg"`   // human readable
	Step   int    `json:"step"`  // scheduler step at which it was detected
	VirtNS int64  `json:"virt_ns"`
}

// KnownSpec identifies a listed known finding (from /verif/known_findings.json).
type KnownSpec struct {
	Property string `json:"property"`
	Tag      string `json:"tag"`
	Key      string `json:"key"`
}

type abortRun struct{}

type task struct {
	name string
	ch   chan struct{}
	kill bool
}

// Sim is the per-run simulator state.
type Sim struct {
	Prop     string
	Scenario string
	Seed     uint64
	RunIndex int // position of this run in the batch (systematic enumeration of fault points)

	rng     *rand.Rand
	feed    []int32
	useFeed bool
	Choices []int32
	Labels  []string // parallel to Choices when KeepLabels

	KeepLabels bool
	KeepTrace  bool

	mu         sync.Mutex // protects parked, stepEvents, counters when touched by tasks
	parked     map[string]*task
	rootActive bool
	ending     bool
	parkSignal chan struct{}

	Steps    int
	MaxSteps int
	// NoTick: steps do not move the clock by themselves (see tick). Only for scenarios without a ring client.
	NoTick bool
	start    time.Time

	hash       uint64
	sigHash    uint64
	traceTail  []string
	traceAll   []string
	stepEvents []string

	Viol      *Violation
	Known     []Violation
	knownSpec []KnownSpec

	Faults     map[string]int
	Probes     map[string]int
	States     map[uint64]struct{}
	Nontrivial bool
	// SigFromTrace: worlds without tasks (sequential clients) use the event-trace hash as the
	// "distinct case" signature instead of the released-task sequence.
	SigFromTrace bool
	Sample     []string // short decoded description of the run for evidence

	hmu        sync.Mutex
	actors     map[int64]string
	rootGoid   int64
	l2Percent  int
	// L2NamedOnly: only goroutines named by Go / NameGoroutine yield at lock points
	L2NamedOnly bool
	l2Salt     uint64
	selSalt    uint64
	cleanups   []func()
	endElapsed time.Duration
}

const traceTailMax = 300

func newSim(prop, scenario string, seed uint64, feed []int32, useFeed bool, known []KnownSpec) *Sim {
	s := &Sim{
		Prop: prop, Scenario: scenario, Seed: seed,
		rng:  rand.New(rand.NewSource(int64(seed))),
		feed: feed, useFeed: useFeed,
		parked:    map[string]*task{},
		Faults:    map[string]int{},
		Probes:    map[string]int{},
		States:    map[uint64]struct{}{},
		knownSpec: known,
		MaxSteps:  3000,
		hash:      14695981039346656037,
		sigHash:   14695981039346656037,
	}
	return s
}

// ---------------------------------------------------------------------------------------------
// choices

// Choose returns a value in [0,n). n<=1 returns 0 without consuming a choice.
// By convention 0 is the simplest / most benign alternative: an exhausted replay vector yields 0.
func (s *Sim) Choose(n int, label string) int {
	if n <= 1 {
		return 0
	}
	var v int
	if s.useFeed {
		i := len(s.Choices)
		if i < len(s.feed) {
			v = int(s.feed[i])
			if v < 0 {
				v = -v
			}
			v %= n
		}
	} else {
		v = s.rng.Intn(n)
	}
	s.Choices = append(s.Choices, int32(v))
	if s.KeepLabels {
		s.Labels = append(s.Labels, fmt.Sprintf("%s=%d/%d", label, v, n))
	}
	return v
}

// Chance is true with probability p; the zero choice means "no".
func (s *Sim) Chance(p float64, label string) bool {
	if p <= 0 {
		return false
	}
	const res = 1000
	cut := res - int(p*res+0.5)
	if cut < 1 {
		cut = 1 // value 0 always means no
	}
	return s.Choose(res, label) >= cut
}

// Range returns a value in [lo,hi].
func (s *Sim) Range(lo, hi int, label string) int {
	if hi <= lo {
		return lo
	}
	return lo + s.Choose(hi-lo+1, label)
}

// Pick returns one of the given values.
func Pick[T any](s *Sim, label string, vals ...T) T {
	return vals[s.Choose(len(vals), label)]
}

// Perm returns a permutation of [0,n) drawn from the choice source.
func (s *Sim) Perm(n int, label string) []int {
	p := make([]int, n)
	for i := range p {
		p[i] = i
	}
	for i := 0; i < n-1; i++ {
		j := i + s.Choose(n-i, label)
		p[i], p[j] = p[j], p[i]
	}
	return p
}

// ---------------------------------------------------------------------------------------------
// trace / counters / verdicts

func (s *Sim) hashLine(l string) {
	h := s.hash
	for i := 0; i < len(l); i++ {
		h ^= uint64(l[i])
		h *= 1099511628211
	}
	h ^= '\n'
	h *= 1099511628211
	s.hash = h
	if s.KeepTrace {
		s.traceAll = append(s.traceAll, l)
	} else {
		if len(s.traceTail) >= traceTailMax*2 {
			s.traceTail = append(s.traceTail[:0], s.traceTail[traceTailMax:]...)
		}
		s.traceTail = append(s.traceTail, l)
	}
}

// Event appends a line to the run's trace. Lines emitted by task goroutines during a step are
// sorted before they are appended, so the order in which the Go runtime happened to run several
// woken goroutines is not part of the trace.
func (s *Sim) Event(format string, a ...any) {
	l := fmt.Sprintf(format, a...)
	s.mu.Lock()
	if s.rootActive {
		s.hashLine(fmt.Sprintf("%d %s", s.Steps, l))
	} else {
		s.stepEvents = append(s.stepEvents, l)
	}
	s.mu.Unlock()
}

func (s *Sim) flushStepEvents() {
	s.mu.Lock()
	ev := s.stepEvents
	s.stepEvents = nil
	s.mu.Unlock()
	if len(ev) == 0 {
		return
	}
	sort.Strings(ev)
	for _, l := range ev {
		s.hashLine(fmt.Sprintf("%d . %s", s.Steps, l))
	}
}

func (s *Sim) Fault(kind string) {
	s.mu.Lock()
	s.Faults[kind]++
	s.mu.Unlock()
}

func (s *Sim) Probe(name string) {
	s.mu.Lock()
	s.Probes[name]++
	s.mu.Unlock()
}

func (s *Sim) ProbeN(name string, n int) {
	s.mu.Lock()
	s.Probes[name] += n
	s.mu.Unlock()
}

// State records an abstract state (already canonicalised by the world) for the reach measure.
func (s *Sim) State(parts ...any) {
	h := fnv.New64a()
	fmt.Fprint(h, parts...)
	s.mu.Lock()
	if len(s.States) < 4096 {
		s.States[h.Sum64()] = struct{}{}
	}
	s.mu.Unlock()
}

func (s *Sim) Now() time.Time { return time.Now() }

// Elapsed is the virtual time since the start of the run.
func (s *Sim) Elapsed() time.Duration { return time.Since(s.start) }

func (s *Sim) isKnown(tag, key string) bool {
	for _, k := range s.knownSpec {
		if k.Property == s.Prop && k.Tag == tag && k.Key == key && key != "" {
			return true
		}
	}
	return false
}

// Fail records an oracle failure. If (property, tag, key) is a listed known finding the hit is
// recorded and false is returned (the caller decides whether the run can continue); otherwise the
// run is aborted: when called from the root the call does not return.
func (s *Sim) Fail(tag, key, format string, a ...any) bool {
	msg := fmt.Sprintf(format, a...)
	v := Violation{Tag: tag, Key: key, Msg: msg, Step: s.Steps, VirtNS: int64(time.Since(s.start))}
	s.mu.Lock()
	if s.isKnown(tag, key) {
		if len(s.Known) < 4 {
			s.Known = append(s.Known, v)
		}
		s.mu.Unlock()
		return false
	}
	if s.Viol == nil {
		s.Viol = &v
		if os.Getenv("VERIF_STACKS") != "" {
			buf := make([]byte, 1<<20)
			fmt.Fprintf(os.Stderr, "=== violation %s: %s\n%s\n", tag, msg, buf[:runtime.Stack(buf, true)])
		}
	}
	root := s.rootActive
	s.mu.Unlock()
	if root {
		panic(abortRun{})
	}
	return true
}

// Failed reports whether a (non-known) violation has been recorded.
func (s *Sim) Failed() bool {
	s.mu.Lock()
	defer s.mu.Unlock()
	return s.Viol != nil
}

// OnEnd registers a function run by the root when the run ends (stop services, cancel contexts).
func (s *Sim) OnEnd(f func()) { s.cleanups = append(s.cleanups, f) }

// ---------------------------------------------------------------------------------------------
// tasks

// Park blocks the calling task goroutine until the scheduler releases it. It is a no-op when
// called by the root (oracles call through the same wrappers). Names must be stable across
// replays: derive them from actor identity and per-actor counters, never from arrival order.
// If two tasks park under one name the later gets a "#k" suffix in arrival order; worlds avoid that.
func (s *Sim) Park(name string) {
	s.mu.Lock()
	if s.rootActive {
		// Usually only the root runs while rootActive is set, but a goroutine woken by a root action may
		// get here before the root waits for quiescence: tell them apart by goroutine id (only needed in
		// this ambiguous case, the lookup is not free).
		s.mu.Unlock()
		if goid() == s.rootGoid {
			return
		}
		s.mu.Lock()
	}
	if s.ending {
		s.mu.Unlock()
		select {} // durably blocked forever; reclaimed when the worker process exits
	}
	base := name
	for k := 2; ; k++ {
		if _, dup := s.parked[name]; !dup {
			break
		}
		name = fmt.Sprintf("%s#%d", base, k)
	}
	t := &task{name: name, ch: make(chan struct{})}
	s.parked[name] = t
	s.mu.Unlock()
	select {
	case s.parkSignal <- struct{}{}:
	default:
	}
	<-t.ch
	if t.kill {
		select {}
	}
}

// Go starts a harness client goroutine that parks under name before running f. Panics in f are
// reported as violations (tag "panic").
func (s *Sim) Go(name string, f func()) {
	go func() {
		defer func() {
			if r := recover(); r != nil {
				if _, ok := r.(abortRun); ok {
					return
				}
				s.Fail("panic", "", "task %s panicked: %v", name, r)
			}
		}()
		s.NameGoroutine(name)
		s.Park(name)
		f()
	}()
}

// GoNow is like Go without the initial park.
func (s *Sim) GoNow(name string, f func()) {
	go func() {
		defer func() {
			if r := recover(); r != nil {
				if _, ok := r.(abortRun); ok {
					return
				}
				s.Fail("panic", "", "task %s panicked: %v", name, r)
			}
		}()
		f()
	}()
}

// Parked returns the sorted names of parked tasks.
func (s *Sim) Parked() []string {
	s.mu.Lock()
	names := make([]string, 0, len(s.parked))
	for n := range s.parked {
		names = append(names, n)
	}
	s.mu.Unlock()
	sort.Strings(names)
	return names
}

// ParkedWithPrefix returns parked task names that start with prefix.
func (s *Sim) ParkedWithPrefix(prefix string) []string {
	var out []string
	for _, n := range s.Parked() {
		if strings.HasPrefix(n, prefix) {
			out = append(out, n)
		}
	}
	return out
}

func (s *Sim) IsParked(name string) bool {
	s.mu.Lock()
	_, ok := s.parked[name]
	s.mu.Unlock()
	return ok
}

// Wait lets every task run to quiescence. Root only.
func (s *Sim) Wait() {
	s.mu.Lock()
	s.rootActive = false
	s.mu.Unlock()
	synctest.Wait()
	s.mu.Lock()
	s.rootActive = true
	s.mu.Unlock()
	s.flushStepEvents()
	if s.Failed() {
		panic(abortRun{})
	}
}

func (s *Sim) sig(name string) {
	h := s.sigHash
	for i := 0; i < len(name); i++ {
		h ^= uint64(name[i])
		h *= 1099511628211
	}
	h ^= 0xff
	h *= 1099511628211
	s.sigHash = h
}

// tick makes virtual time strictly increasing across steps (1 ns per step). A scenario may switch that off
// (NoTick) so that timers, heartbeats and ages land on exact whole seconds, where >= / > boundaries differ.
func (s *Sim) tick() {
	s.Steps++
	if s.NoTick {
		return
	}
	s.mu.Lock()
	s.rootActive = false
	s.mu.Unlock()
	time.Sleep(time.Nanosecond)
	s.mu.Lock()
	s.rootActive = true
	s.mu.Unlock()
}

// Release lets the named parked task run until the bubble is quiescent again.
func (s *Sim) Release(name string) {
	s.mu.Lock()
	t := s.parked[name]
	delete(s.parked, name)
	s.mu.Unlock()
	if t == nil {
		panic("sim: release of unknown task " + name)
	}
	s.tick()
	s.sig(name)
	s.hashLine(fmt.Sprintf("%d > %s", s.Steps, name))
	close(t.ch)
	s.Wait()
}

// Kill makes a parked task block forever (process crash of its actor).
func (s *Sim) Kill(name string) {
	s.mu.Lock()
	t := s.parked[name]
	delete(s.parked, name)
	s.mu.Unlock()
	if t == nil {
		return
	}
	t.kill = true
	s.hashLine(fmt.Sprintf("%d x %s", s.Steps, name))
	close(t.ch)
	s.Wait()
}

// Do performs a root-side harness action as one scheduler step and waits for quiescence.
func (s *Sim) Do(name string, f func()) {
	s.tick()
	s.sig(name)
	s.hashLine(fmt.Sprintf("%d ! %s", s.Steps, name))
	f()
	s.Wait()
}

// Advance moves the virtual clock forward by up to d. It stops early at the first instant at which
// some task parks, so handlers run in zero virtual time unless the scheduler deliberately stalls
// them (AdvanceStall). Returns the time actually advanced.
func (s *Sim) Advance(d time.Duration) time.Duration {
	return s.advance(d, true)
}

// AdvanceStall advances by exactly d even if tasks park meanwhile (slow store / stalled actor).
func (s *Sim) AdvanceStall(d time.Duration) time.Duration {
	return s.advance(d, false)
}

func (s *Sim) advance(d time.Duration, stopOnPark bool) time.Duration {
	s.Steps++
	t0 := time.Now()
	select {
	case <-s.parkSignal:
	default:
	}
	s.mu.Lock()
	s.rootActive = false
	s.mu.Unlock()
	if stopOnPark {
		tm := time.NewTimer(d)
		select {
		case <-tm.C:
		case <-s.parkSignal:
		}
		tm.Stop()
	} else {
		time.Sleep(d)
	}
	synctest.Wait()
	s.mu.Lock()
	s.rootActive = true
	s.mu.Unlock()
	adv := time.Since(t0)
	s.sig("adv")
	s.hashLine(fmt.Sprintf("%d + %v", s.Steps, adv))
	s.flushStepEvents()
	if s.Failed() {
		panic(abortRun{})
	}
	return adv
}

// Action is a root-side alternative offered to Step next to the parked tasks.
type Action struct {
	Name   string
	Weight int // relative weight, default 1
	Run    func()
}

// Step chooses among the parked tasks (optionally filtered) and the given actions, performs the
// chosen one and returns its name; "" if there was nothing to do.
func (s *Sim) Step(filter func(task string) bool, actions ...Action) string {
	names := s.Parked()
	type alt struct {
		name string
		w    int
		run  func()
	}
	var alts []alt
	total := 0
	for _, n := range names {
		if filter != nil && !filter(n) {
			continue
		}
		n := n
		alts = append(alts, alt{n, 2, nil})
		total += 2
	}
	for _, a := range actions {
		w := a.Weight
		if w <= 0 {
			w = 1
		}
		alts = append(alts, alt{a.Name, w, a.Run})
		total += w
	}
	if len(alts) == 0 {
		return ""
	}
	v := s.Choose(total, "step")
	for _, a := range alts {
		if v < a.w {
			if a.run == nil {
				s.Release(a.name)
			} else {
				s.Do(a.name, a.run)
			}
			return a.name
		}
		v -= a.w
	}
	panic("unreachable")
}

// Drain releases parked tasks (choosing the order) until none is parked or limit steps were taken.
func (s *Sim) Drain(limit int) {
	for i := 0; i < limit; i++ {
		names := s.Parked()
		if len(names) == 0 {
			return
		}
		s.Release(names[s.Choose(len(names), "drain")])
	}
}

// Locked runs f under the harness mutex: bookkeeping shared by task goroutines that may run
// concurrently inside one step.
func (s *Sim) Locked(f func()) {
	s.hmu.Lock()
	defer s.hmu.Unlock()
	f()
}

// ---------------------------------------------------------------------------------------------
// L2: lock-point yields (generated copies of dskit files call simrt.Y before every Lock/RLock)

func goid() int64 {
	var buf [40]byte
	n := runtime.Stack(buf[:], false)
	// "goroutine 123 ["
	var id int64
	for i := len("goroutine "); i < n && buf[i] >= '0' && buf[i] <= '9'; i++ {
		id = id*10 + int64(buf[i]-'0')
	}
	return id
}

// EnableL2 turns lock-point yields on for this run. percent is the share of sites that yield
// (a per-run "buggify subset", chosen by hashing the site with a salt drawn from the choices).
func (s *Sim) EnableL2(percent int) {
	s.l2Percent = percent
	s.l2Salt = uint64(s.Choose(1<<16, "l2-salt"))
	simrt.Hook = s.yield
}

// NameGoroutine gives the calling goroutine a stable actor name used in L2 park names.
func (s *Sim) NameGoroutine(name string) {
	id := goid()
	s.mu.Lock()
	if s.actors == nil {
		s.actors = map[int64]string{}
	}
	s.actors[id] = name
	s.mu.Unlock()
}

// ActorName returns the name given to the calling goroutine by Go / NameGoroutine ("" if none).
func (s *Sim) ActorName() string {
	id := goid()
	s.mu.Lock()
	defer s.mu.Unlock()
	return s.actors[id]
}

func (s *Sim) yield(site string) {
	s.mu.Lock()
	ending := s.ending
	root := s.rootActive
	if root {
		s.mu.Unlock()
		root = goid() == s.rootGoid
		s.mu.Lock()
	}
	pct, salt := s.l2Percent, s.l2Salt
	s.mu.Unlock()
	spin := strings.HasSuffix(site, ".spin")
	if root {
		if spin {
			panic("sim: the root would block on a lock held by a parked task at " + site)
		}
		return
	}
	if ending {
		if spin {
			select {}
		}
		return
	}
	if !spin && pct < 100 && int(splitmix(strHash(site)^salt)%100) >= pct {
		return
	}
	id := goid()
	s.mu.Lock()
	actor := s.actors[id]
	s.mu.Unlock()
	if actor == "" {
		if s.L2NamedOnly {
			if spin {
				runtime.Gosched()
			}
			return
		}
		actor = "anon"
	}
	_ = id
	s.ProbeN("l2-yield", 1)
	s.Park("y:" + actor + "@" + site)
}

// L2Parked returns the parked tasks that sit at lock-point yields.
func (s *Sim) L2Parked() []string { return s.ParkedWithPrefix("y:") }

// DrainL2 releases lock-point tasks (in chosen order) until none is parked, so that the root may
// call into instrumented objects. Tasks parked at L1 seams stay parked.
func (s *Sim) DrainL2(limit int) {
	for i := 0; i < limit; i++ {
		names := s.L2Parked()
		if len(names) == 0 {
			return
		}
		s.Release(names[s.Choose(len(names), "drain-l2")])
	}
	if len(s.L2Parked()) > 0 {
		panic("sim: lock-point tasks did not drain")
	}
}

// ---------------------------------------------------------------------------------------------
// L3: select points (generated copies of dskit files route receive-only selects through simrt.Sel)

// selOrder is the simrt.SelHook of a run: the polling order of the cases of a rewritten select is a
// pure function of the run seed, the site and the scheduler step (never of goroutine arrival order),
// so which of several ready cases proceeds is decided by the simulator and replays exactly. Salt 0
// (every 4th run) polls in source order.
func (s *Sim) selOrder(site string, n int) []int {
	p := make([]int, n)
	for i := range p {
		p[i] = i
	}
	s.mu.Lock()
	s.Probes["sel-point"]++
	s.mu.Unlock()
	if s.selSalt == 0 {
		return p
	}
	x := splitmix(s.selSalt ^ strHash(site) ^ uint64(s.Steps)*0x9e3779b97f4a7c15)
	for i := 0; i < n-1; i++ {
		x = splitmix(x)
		j := i + int(x%uint64(n-i))
		p[i], p[j] = p[j], p[i]
	}
	return p
}

// Budget reports whether the run may take another step.
func (s *Sim) Budget() bool { return s.Steps < s.MaxSteps }

func (s *Sim) Note(format string, a ...any) {
	if len(s.Sample) < 12 {
		s.Sample = append(s.Sample, fmt.Sprintf(format, a...))
	}
}
