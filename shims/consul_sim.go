package consul

// Build-time shim (overlay only): lets the simulation harness wrap the low-level consul KV used by
// the real Client (single Get / CAS / Put / Delete / List calls), for fault injection and scheduling.

import (
	"io"

	"github.com/go-kit/log"

	"github.com/grafana/dskit/kv/codec"
)

// SimKV is the low-level interface the real Client talks to.
type SimKV = kv

// NewSimInMemoryClient is NewInMemoryClientWithConfig with the in-memory store wrapped by wrap.
func NewSimInMemoryClient(codec codec.Codec, cfg Config, logger log.Logger, wrap func(SimKV) SimKV) (*Client, io.Closer) {
	c, closer := NewInMemoryClientWithConfig(codec, cfg, logger, nil)
	if wrap != nil {
		c.kv = wrap(c.kv)
	}
	return c, closer
}
