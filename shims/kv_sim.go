package kv

// Build-time shim (overlay only, never part of /repo): exported constructors for wrappers whose
// real constructors take unexported types.

import (
	"github.com/go-kit/log"
	"github.com/prometheus/client_golang/prometheus"
)

// NewSimMetricsClient wraps c with the real metrics wrapper.
func NewSimMetricsClient(backend string, c Client, reg prometheus.Registerer) Client {
	return newMetricsClient(backend, c, reg)
}

// NewSimMultiClient builds the real MultiClient over two given clients.
func NewSimMultiClient(cfg MultiConfig, primaryName string, primary Client, secondaryName string, secondary Client, logger log.Logger, reg prometheus.Registerer) *MultiClient {
	return NewMultiClient(cfg, []kvclient{{client: primary, name: primaryName}, {client: secondary, name: secondaryName}}, logger, reg)
}
