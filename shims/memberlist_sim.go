package memberlist

// Build-time shim (overlay only): the real KV (store, CAS, merge, broadcast queues, per-key workers,
// watchers, tombstone handling, running loop) without hashicorp/memberlist's transport. The harness
// plays the network through the exported delegate methods GetBroadcasts / NotifyMsg / LocalState /
// MergeRemoteState.

import (
	"context"
	"time"

	"github.com/go-kit/log"
	"github.com/hashicorp/memberlist"
	"github.com/prometheus/client_golang/prometheus"

	"github.com/grafana/dskit/services"
)

// NewSimKV returns a KV whose starting/stopping functions do not create a memberlist.Memberlist.
// numNodes is what the transmit-limited queues use to compute the retransmit limit.
func NewSimKV(cfg KVConfig, logger log.Logger, reg prometheus.Registerer, numNodes func() int) *KV {
	m := NewKV(cfg, logger, nil, reg)
	starting := func(context.Context) error {
		m.localBroadcasts = &memberlist.TransmitLimitedQueue{NumNodes: numNodes, RetransmitMult: cfg.RetransmitMult}
		m.gossipBroadcasts = &memberlist.TransmitLimitedQueue{NumNodes: numNodes, RetransmitMult: cfg.RetransmitMult}
		m.delegateReady.Store(true)
		return nil
	}
	stopping := func(error) error {
		close(m.shutdown)
		return nil
	}
	m.NamedService = services.NewBasicService(starting, m.running, stopping).WithName("memberlist_kv")
	return m
}

// SimEntry is a raw store entry (tombstones included).
type SimEntry struct {
	Value      Mergeable
	Version    uint
	CodecID    string
	Deleted    bool
	UpdateTime time.Time
}

// SimStore returns a deep copy of the raw store.
func (m *KV) SimStore() map[string]SimEntry {
	out := map[string]SimEntry{}
	for k, v := range m.storeCopy() {
		out[k] = SimEntry{Value: v.value, Version: v.Version, CodecID: v.CodecID, Deleted: v.Deleted, UpdateTime: v.UpdateTime}
	}
	return out
}

// SimQueued returns the number of queued local and gossip broadcasts.
func (m *KV) SimQueued() (local, gossip int) {
	if !m.delegateReady.Load() {
		return 0, 0
	}
	return m.localBroadcasts.NumQueued(), m.gossipBroadcasts.NumQueued()
}

// SimCleanupObsoleteEntries triggers the periodic cleanup immediately.
func (m *KV) SimCleanupObsoleteEntries() { m.cleanupObsoleteEntries() }
