package wmod

// C18 – modules.Manager: init / start / stop order over dependency graphs.
//
// Real code: modules.Manager (RegisterModule, AddDependency, InitModuleServices), the module
// service wrapper (NewModuleService), services.BasicService for wrappers and inner services.
// Stub: module init functions, the inner services' starting / running / stopping functions (parked
// tasks with scheduler-chosen latency and outcome), the operator (start order, stop requests).

import (
	"context"
	"errors"
	"fmt"
	"sort"
	"strings"

	"github.com/go-kit/log"

	"github.com/grafana/dskit/modules"
	"github.com/grafana/dskit/services"
	"github.com/grafana/dskit/zzverif/sim"
)

func init() {
	sim.Register("C18", "modules", 1, runModules)
}

type modl struct {
	name       string
	hasService bool
	initErr    bool
	deps       map[string]bool // direct
	inits      int
	nilInit    bool
	inner      *services.BasicService
	wrapper    services.Service
	startCalls, runCalls, stopCalls int
	startErr, runErr, stopErr       error
	runSelfReturned                 bool
	everRunning                     bool
	startedWrapper                  bool
	stopRequested                   bool
	last                            services.State
}

func reach(mods map[string]*modl, from string) map[string]bool {
	out := map[string]bool{}
	var walk func(n string)
	walk = func(n string) {
		for d := range mods[n].deps {
			if !out[d] {
				out[d] = true
				walk(d)
			}
		}
	}
	walk(from)
	return out
}

type modOutcome struct {
	err     error
	waitCtx bool
}

func runModules(s *sim.Sim) {
	n := s.Range(1, 8, "modules")
	if s.Chance(0.1, "large") {
		n = s.Range(9, 12, "modules-large")
	}
	mm := modules.NewManager(log.NewNopLogger())
	mods := map[string]*modl{}
	var names []string
	var initOrder []string
	outcomes := map[string]*modOutcome{}
	for i := 0; i < n; i++ {
		m := &modl{name: fmt.Sprintf("m%02d", i), deps: map[string]bool{}, last: services.New}
		m.hasService = !s.Chance(0.25, "no-service")
		mods[m.name] = m
		names = append(names, m.name)
	}
	initErrModule := ""
	if s.Chance(0.05, "init-error") {
		initErrModule = names[s.Choose(n, "init-error-module")]
	}
	for _, name := range names {
		m := mods[name]
		mkFns := func() *services.BasicService {
			start := func(ctx context.Context) error {
				m.startCalls++
				s.Event("inner start %s", m.name)
				// every dependency with a service must be (or have been) Running
				for d := range reach(mods, m.name) {
					dm := mods[d]
					if dm.wrapper == nil {
						continue
					}
					if !dm.everRunning && dm.wrapper.State() != services.Running {
						s.Fail("started-before-dependency", "", "inner service of %s started while its dependency %s is %v and has not been Running", m.name, d, dm.wrapper.State())
					}
				}
				s.Park(m.name + "-start")
				o := outcomes[m.name+"-start"]
				m.startErr = o.err
				return o.err
			}
			run := func(ctx context.Context) error {
				m.runCalls++
				s.Park(m.name + "-run")
				o := outcomes[m.name+"-run"]
				if o.waitCtx {
					<-ctx.Done()
				} else {
					m.runSelfReturned = true
				}
				m.runErr = o.err
				return o.err
			}
			stop := func(error) error {
				m.stopCalls++
				s.Event("inner stop %s", m.name)
				if !m.runSelfReturned {
					for _, x := range names {
						xm := mods[x]
						if xm.wrapper == nil || !reach(mods, x)[m.name] {
							continue
						}
						// a dependant whose own service was never started does not count as running
						if st := xm.wrapper.State(); st != services.Terminated && st != services.Failed && xm.startCalls > 0 {
							s.Fail("stopped-before-dependant", "", "inner service of %s is being stopped while its dependant %s is still %v", m.name, x, st)
						}
					}
				}
				s.Park(m.name + "-stop")
				o := outcomes[m.name+"-stop"]
				m.stopErr = o.err
				return o.err
			}
			return services.NewBasicService(start, run, stop)
		}
		switch {
		case s.Chance(0.1, "nil-initfn") && !m.hasService && initErrModule != name:
			m.nilInit = true
			mm.RegisterModule(name, nil)
		default:
			mm.RegisterModule(name, func() (services.Service, error) {
				m.inits++
				initOrder = append(initOrder, m.name)
				if initErrModule == m.name {
					return nil, errors.New("init-error-" + m.name)
				}
				if !m.hasService {
					return nil, nil
				}
				m.inner = mkFns()
				return m.inner, nil
			})
			m.initErr = initErrModule == m.name
		}
	}
	// ---- dependencies: random edge attempts, including ones that would close a cycle
	attempts := s.Range(0, n*2, "edge-attempts")
	cycleRejected := 0
	for a := 0; a < attempts; a++ {
		from := names[s.Choose(n, "edge-from")]
		to := names[s.Choose(n, "edge-to")]
		closes := from == to || reach(mods, to)[from]
		if from == to && !s.Chance(0.3, "self-edge") {
			continue
		}
		var err error
		func() {
			defer func() {
				if r := recover(); r != nil {
					s.Fail("panic", "", "AddDependency(%s,%s) panicked: %v", from, to, r)
				}
			}()
			err = mm.AddDependency(from, to)
		}()
		switch {
		case closes && err == nil:
			key := ""
			if from == to {
				key = "self-dependency"
			}
			s.Fail("cycle-accepted", key, "AddDependency(%s, %s) closes a cycle but was accepted", from, to)
			return // the graph is no longer a DAG; the library would recurse forever
		case !closes && err != nil:
			s.Fail("edge-rejected", "", "AddDependency(%s, %s) does not close a cycle but was rejected: %v", from, to, err)
		case closes:
			cycleRejected++
			s.Probe("cycle-rejected")
		default:
			mods[from].deps[to] = true
		}
	}
	// ---- init
	var targets []string
	for _, name := range names {
		if s.Chance(0.4, "target") {
			targets = append(targets, name)
		}
	}
	if len(targets) == 0 {
		targets = append(targets, names[s.Choose(n, "target-one")])
	}
	for _, i := range s.Perm(len(targets), "target-order") {
		targets[0], targets[i] = targets[i], targets[0]
	}
	needed := map[string]bool{}
	for _, t := range targets {
		needed[t] = true
		for d := range reach(mods, t) {
			needed[d] = true
		}
	}
	var svcMap map[string]services.Service
	var initErr error
	func() {
		defer func() {
			if r := recover(); r != nil {
				s.Fail("panic", "", "InitModuleServices panicked: %v", r)
			}
		}()
		svcMap, initErr = mm.InitModuleServices(targets...)
	}()
	pos := map[string]int{}
	for i, nm := range initOrder {
		if _, dup := pos[nm]; dup {
			s.Fail("initialised-twice", "", "module %s initialised more than once (order %v, targets %v)", nm, initOrder, targets)
		}
		pos[nm] = i
		if !needed[nm] {
			s.Fail("unneeded-initialised", "", "module %s is not needed by targets %v but was initialised", nm, targets)
		}
		for d := range reach(mods, nm) {
			if mods[d].nilInit {
				continue
			}
			if p, ok := pos[d]; !ok || p > i {
				s.Fail("init-before-dependency", "", "module %s initialised before its dependency %s (order %v)", nm, d, initOrder)
			}
		}
	}
	if initErrModule != "" && needed[initErrModule] {
		if initErr == nil {
			s.Fail("init-error-swallowed", "", "initFn of %s failed but InitModuleServices returned nil", initErrModule)
		}
		s.Note("init error of %s propagated: %v", initErrModule, initErr)
		return
	}
	if initErr != nil {
		s.Fail("init-failed", "", "InitModuleServices(%v): %v", targets, initErr)
	}
	for nm := range needed {
		m := mods[nm]
		if m.inits != 1 && !(m.inits == 0 && m.nilInit) {
			s.Fail("needed-not-initialised", "", "module %s is needed by %v but was initialised %d times", nm, targets, m.inits)
		}
		if m.hasService {
			if svcMap[nm] == nil {
				s.Fail("service-missing", "", "module %s has a service but is missing from the services map", nm)
			}
			m.wrapper = svcMap[nm]
		}
	}
	for nm := range svcMap {
		if !needed[nm] || !mods[nm].hasService {
			s.Fail("unexpected-service", "", "services map contains %s", nm)
		}
	}
	var withSvc []string
	for _, nm := range names {
		if mods[nm].wrapper != nil {
			withSvc = append(withSvc, nm)
		}
	}
	sort.Strings(withSvc)
	if len(withSvc) == 0 {
		s.Note("no services: targets=%v order=%v", targets, initOrder)
		return
	}

	// ---- run phase
	parent, cancelParent := context.WithCancel(context.Background())
	s.OnEnd(func() {
		cancelParent()
		for _, nm := range withSvc {
			mods[nm].wrapper.StopAsync()
		}
	})
	for _, nm := range withSvc {
		m := mods[nm]
		s.Go("start-"+nm, func() {
			m.startedWrapper = true
			if err := m.wrapper.StartAsync(parent); err != nil {
				s.Event("StartAsync(%s) -> %v", m.name, err)
			}
		})
	}
	stopAll := false
	failures, earlyStop, diamond := false, false, false
	for _, nm := range withSvc {
		cnt := 0
		for _, x := range withSvc {
			if reach(mods, x)[nm] {
				cnt++
			}
		}
		if cnt >= 2 && len(reach(mods, nm)) > 0 {
			diamond = true
		}
	}
	observe := func() {
		for _, nm := range withSvc {
			m := mods[nm]
			m.last = m.wrapper.State()
			if m.last == services.Running {
				m.everRunning = true
			}
		}
		// a dependency that ended without ever running: its dependants must never start
		for _, nm := range withSvc {
			m := mods[nm]
			if (m.last == services.Failed || m.last == services.Terminated) && !m.everRunning {
				for _, x := range withSvc {
					if reach(mods, x)[nm] && mods[x].startCalls > 0 && !mods[x].everRunning && mods[x].last != services.Running {
						// the dependant's inner start was entered: only legal if the dependency had been running
						s.Fail("dependant-started-after-dependency-failed", "", "%s never ran (now %v) but the inner service of its dependant %s was started", nm, m.last, x)
					}
				}
			}
		}
	}
	for s.Budget() {
		s.Wait()
		observe()
		names := s.Parked()
		var acts []sim.Action
		if !stopAll {
			acts = append(acts, sim.Action{Name: "stop-all", Weight: 1})
			acts = append(acts, sim.Action{Name: "stop-one", Weight: 1})
		}
		if len(names) == 0 && (stopAll || s.Chance(0.5, "finish")) {
			break
		}
		total := len(names) * 4
		for _, a := range acts {
			total += a.Weight
		}
		v := s.Choose(total, "step")
		if v >= len(names)*4 {
			v -= len(names) * 4
			if v == 0 {
				stopAll = true
				anyStarting := false
				for _, nm := range withSvc {
					if st := mods[nm].last; st == services.Starting || st == services.New {
						anyStarting = true
					}
				}
				if anyStarting {
					earlyStop = true
				}
				order := s.Perm(len(withSvc), "stop-order")
				s.Do("stop-all", func() {
					s.Fault("stop-requested")
					for _, i := range order {
						mods[withSvc[i]].stopRequested = true
						mods[withSvc[i]].wrapper.StopAsync()
					}
				})
			} else {
				nm := withSvc[s.Choose(len(withSvc), "stop-which")]
				s.Do("stop-"+nm, func() {
					s.Fault("stop-requested")
					mods[nm].stopRequested = true
					if mods[nm].last == services.Starting || mods[nm].last == services.New {
						earlyStop = true
					}
					mods[nm].wrapper.StopAsync()
				})
			}
			continue
		}
		nm := names[v/4]
		if !strings.HasPrefix(nm, "start-") {
			o := &modOutcome{}
			switch {
			case strings.HasSuffix(nm, "-run"):
				switch s.Choose(5, "run-outcome") {
				case 0, 1, 2:
					o.waitCtx = true
				case 4:
					o.err = errors.New(nm + "-error")
					s.Fault("function-error")
					failures = true
				}
			default:
				if s.Chance(0.2, "fn-error") {
					o.err = errors.New(nm + "-error")
					s.Fault("function-error")
					failures = true
				}
			}
			outcomes[nm] = o
		}
		s.Release(nm)
	}
	// ---- drain: stop everything, default outcomes, then final obligations
	s.Wait()
	observe()
	if !stopAll {
		s.Do("final-stop-all", func() {
			for _, nm := range withSvc {
				mods[nm].stopRequested = true
				mods[nm].wrapper.StopAsync()
			}
		})
		observe()
	}
	for i := 0; i < 2000 && len(s.Parked()) > 0; i++ {
		names := s.Parked()
		nm := names[s.Choose(len(names), "final-drain")]
		if outcomes[nm] == nil || true {
			outcomes[nm] = &modOutcome{waitCtx: strings.HasSuffix(nm, "-run")}
		}
		s.Release(nm)
		observe()
	}
	if len(s.Parked()) == 0 {
		for _, nm := range withSvc {
			m := mods[nm]
			if !m.startedWrapper {
				continue
			}
			if m.last != services.Terminated && m.last != services.Failed {
				s.Fail("module-not-stopped", "", "everything was stopped and every function returned but module %s is %v (%s)", nm, m.last, describeMods(mods, withSvc))
			}
			if m.startCalls > 1 || m.stopCalls > 1 || m.runCalls > 1 {
				s.Fail("inner-function-twice", "", "%s: start=%d run=%d stop=%d", nm, m.startCalls, m.runCalls, m.stopCalls)
			}
			// dependency failed to start => dependants fail as well
			for d := range reach(mods, nm) {
				dm := mods[d]
				if dm.wrapper != nil && dm.last == services.Failed && !dm.everRunning && dm.startErr != nil {
					if m.startCalls > 0 {
						s.Fail("dependant-started-after-dependency-failed", "", "%s failed to start but its dependant %s was started", d, nm)
					}
					if m.last != services.Failed && !m.stopRequestedBeforeStart() {
						s.Fail("dependant-not-failed", "", "%s failed to start but its dependant %s ended %v", d, nm, m.last)
					}
				}
			}
		}
	}
	if (diamond && (failures || earlyStop)) || cycleRejected > 0 {
		s.Nontrivial = true
	}
	var edges []string
	for _, nm := range names {
		for d := range mods[nm].deps {
			edges = append(edges, nm+">"+d)
		}
	}
	sort.Strings(edges)
	s.Note("modules=%d edges=%v targets=%v init=%v states=%s failures=%v earlyStop=%v", n, edges, targets, initOrder, describeMods(mods, withSvc), failures, earlyStop)
	s.State(edges, targets, describeMods(mods, withSvc))
}

func (m *modl) stopRequestedBeforeStart() bool { return m.stopRequested && m.startCalls == 0 }

func describeMods(mods map[string]*modl, names []string) string {
	var b []string
	for _, nm := range names {
		b = append(b, nm+"="+mods[nm].last.String())
	}
	return strings.Join(b, " ")
}
