package wcache

// C19 – cache wrappers (LRU / Versioned / Snappy over the in-process MockCache) under clock
// advance, backend/local clock skew, eviction pressure and backend faults; plus the memcached
// jump-hash server selector at "server list changed" events.
//
// Real code: cache.LRUCache, cache.Versioned, cache.SnappyCache, cache.MockCache,
// cache.MemcachedJumpHashSelector. Stub: the sequential client, a fault-injecting layer directly
// above MockCache (failed Set/Add/Delete, failing or empty reads).

import (
	"bytes"
	"context"
	"errors"
	"fmt"
	"net"
	"sort"
	"strings"
	"time"

	"github.com/facette/natsort"
	"github.com/go-kit/log"

	"github.com/grafana/dskit/cache"
	"github.com/grafana/dskit/zzverif/sim"
)

func init() {
	sim.Register("C19", "wrappers", 8, runCacheWrappers)
	sim.Register("C19", "selector", 1, runSelector)
}

// faulty sits directly above MockCache and injects backend faults chosen by the scheduler.
type faulty struct {
	*cache.MockCache
	s            *sim.Sim
	failWrites   bool
	failReads    bool
	dropReads    bool
	corruptReads bool // stored bytes come back truncated / replaced (only used below a Snappy layer)
}

var errBackend = errors.New("backend unavailable")

func (f *faulty) Set(ctx context.Context, k string, v []byte, ttl time.Duration) error {
	if f.failWrites {
		f.s.Fault("backend-write-error")
		return errBackend
	}
	return f.MockCache.Set(ctx, k, v, ttl)
}
func (f *faulty) Add(ctx context.Context, k string, v []byte, ttl time.Duration) error {
	if f.failWrites {
		f.s.Fault("backend-write-error")
		return errBackend
	}
	return f.MockCache.Add(ctx, k, v, ttl)
}
func (f *faulty) Delete(ctx context.Context, k string) error {
	if f.failWrites {
		f.s.Fault("backend-delete-error")
		return errBackend
	}
	return f.MockCache.Delete(ctx, k)
}
func (f *faulty) GetMulti(ctx context.Context, keys []string, opts ...cache.Option) map[string][]byte {
	r, _ := f.GetMultiWithError(ctx, keys, opts...)
	return r
}
func (f *faulty) GetMultiWithError(ctx context.Context, keys []string, opts ...cache.Option) (map[string][]byte, error) {
	if f.dropReads {
		f.s.Fault("backend-read-empty")
		return map[string][]byte{}, nil
	}
	r, err := f.MockCache.GetMultiWithError(ctx, keys, opts...)
	if f.corruptReads {
		for k, v := range r {
			f.s.Fault("backend-corrupt-read")
			if len(v) > 2 && len(k)%2 == 0 {
				r[k] = append([]byte(nil), v[:len(v)-1]...) // torn value
			} else {
				r[k] = []byte{0xff, 0xff, 0xff, 0xff, 0xff, 0xff, 0xff, 0xff, 0xff, 0xff, 0xff} // not a snappy block
			}
		}
	}
	if f.failReads {
		f.s.Fault("backend-read-error")
		return r, errBackend // like ErroringMockCache: partial result plus error
	}
	return r, err
}

type stored struct {
	value          []byte
	ttl            time.Duration
	localAt        time.Duration // local (bubble) clock at the store
	backendAt      time.Duration // backend clock at the store
	acked          bool          // the store call reported success
	lastBackfillAt time.Duration // local time of the last read that the backend could have served
	hasBackfill    bool
	deleted        bool
}

type entryModel struct {
	latest  *stored   // most recent acknowledged store (nil: none)
	maybe   []*stored // later stores that reported an error (may or may not have taken effect)
	deleteFailedAfter bool
}

func runCacheWrappers(s *sim.Sim) {
	s.SigFromTrace = true
	logger := log.NewNopLogger()
	mock := cache.NewMockCache()
	fb := &faulty{MockCache: mock, s: s}
	faultsOn := s.Chance(0.4, "faults-enabled")
	skewOn := s.Chance(0.5, "skew-enabled")
	// stack: a permutation of a subset of {lru, versioned, snappy}, listed from the client downwards
	layers := []string{}
	for _, i := range s.Perm(3, "layer-order") {
		l := []string{"lru", "versioned", "snappy"}[i]
		if s.Chance(0.7, "layer-"+l) {
			layers = append(layers, l)
		}
	}
	hasLRU, hasVer, hasSnappy := false, false, false
	for _, l := range layers {
		if l == "lru" {
			hasLRU = true
		}
		if l == "versioned" {
			hasVer = true
		}
		if l == "snappy" {
			hasSnappy = true
		}
	}
	lruSize := sim.Pick(s, "lru-size", 2, 1, 3, 100)
	defaultTTL := sim.Pick(s, "lru-default-ttl", 10*time.Second, 2*time.Second, 40*time.Second)
	// build bottom-up; everything below the versioned layer is shared by the two versions
	build := func(version uint, shared map[int]cache.Cache) cache.Cache {
		var c cache.Cache = fb
		belowVersioned := true
		for i := len(layers) - 1; i >= 0; i-- {
			if belowVersioned && layers[i] != "versioned" {
				if sc, ok := shared[i]; ok {
					c = sc
					continue
				}
			}
			switch layers[i] {
			case "lru":
				lc, err := cache.WrapWithLRUCache(c, fmt.Sprintf("l%d-%d", i, version), nil, lruSize, defaultTTL, logger)
				if err != nil {
					panic(err)
				}
				c = lc
			case "snappy":
				c = cache.NewSnappy(c, logger)
			case "versioned":
				c = cache.NewVersioned(c, version, logger)
				belowVersioned = false
				continue
			}
			if belowVersioned {
				shared[i] = c
			}
		}
		return c
	}
	shared := map[int]cache.Cache{}
	versions := []uint{1}
	if hasVer {
		versions = []uint{1, 2}
		if s.Chance(0.3, "versions-1-11") {
			versions = []uint{1, 11}
		}
	}
	clients := map[uint]cache.Cache{}
	for _, v := range versions {
		clients[v] = build(v, shared)
	}
	keys := []string{"a", "b", "1@a", "2@a", "1a", "@", "11@a", "a@1", ""}
	if !hasVer {
		keys = []string{"a", "b", "c", "1@a", ""}
	}
	nKeys := s.Range(2, len(keys), "keys")
	keys = keys[:nKeys]
	ttls := []time.Duration{5 * time.Second, time.Second, 30 * time.Second, 0}

	model := map[string]*entryModel{} // "<version>|<key>"
	mk := func(v uint, k string) string { return fmt.Sprintf("%d|%s", v, k) }
	get := func(v uint, k string) *entryModel {
		e := model[mk(v, k)]
		if e == nil {
			e = &entryModel{}
			model[mk(v, k)] = e
		}
		return e
	}
	var localNow, backendNow time.Duration // offsets from the start
	seq := 0
	newValue := func() []byte {
		seq++
		switch s.Choose(5, "value-kind") {
		case 0:
			return []byte(fmt.Sprintf("v%d", seq))
		case 1:
			return []byte{}
		case 2:
			return []byte{byte(seq)}
		case 3:
			return append(bytes.Repeat([]byte("abcd"), 40), []byte(fmt.Sprintf("#%d", seq))...)
		default:
			b := make([]byte, 24)
			x := uint64(seq)*0x9e3779b97f4a7c15 + 12345
			for i := range b {
				x ^= x << 13
				x ^= x >> 7
				x ^= x << 17
				b[i] = byte(x)
			}
			return b
		}
	}
	ctx := context.Background()
	servedFromLRU := false

	record := func(v uint, k string, val []byte, ttl time.Duration, err error) {
		e := get(v, k)
		st := &stored{value: append([]byte(nil), val...), ttl: ttl, localAt: localNow, backendAt: backendNow, acked: err == nil}
		if err == nil {
			e.latest, e.maybe, e.deleteFailedAfter = st, nil, false
		} else {
			e.maybe = append(e.maybe, st)
		}
	}
	legal := func(st *stored, canBackfill bool) (bool, bool) {
		// (a) the backend may still hold it, (b) the in-memory layer may hold it from the store,
		// (c) the in-memory layer may hold it from a back-fill
		a := backendNow < st.backendAt+st.ttl
		b := hasLRU && localNow < st.localAt+st.ttl
		c := hasLRU && st.hasBackfill && localNow < st.lastBackfillAt+defaultTTL
		return a || b || c, a
	}

	steps := s.Range(5, 60, "ops")
	for i := 0; i < steps && !s.Failed(); i++ {
		v := versions[s.Choose(len(versions), "version")]
		c := clients[v]
		k := keys[s.Choose(len(keys), "key")]
		if faultsOn {
			fb.failWrites = s.Chance(0.1, "fault-write")
			fb.failReads = s.Chance(0.1, "fault-read")
			fb.dropReads = s.Chance(0.05, "fault-drop-read")
			fb.corruptReads = hasSnappy && s.Chance(0.08, "fault-corrupt-read")
		}
		op := s.Choose(10, "op")
		switch op {
		case 0, 1:
			val, ttl := newValue(), ttls[s.Choose(len(ttls), "ttl")]
			err := c.Set(ctx, k, val, ttl)
			s.Event("v%d Set(%q,%d bytes,%v) -> %v", v, k, len(val), ttl, err)
			record(v, k, val, ttl, err)
		case 2:
			val, ttl := newValue(), ttls[s.Choose(len(ttls), "ttl")]
			err := c.Add(ctx, k, val, ttl)
			s.Event("v%d Add(%q,%d bytes,%v) -> %v", v, k, len(val), ttl, err)
			if err == nil {
				record(v, k, val, ttl, nil)
			} else if !errors.Is(err, cache.ErrNotStored) {
				record(v, k, val, ttl, err)
			}
		case 3:
			val, ttl := newValue(), ttls[s.Choose(len(ttls), "ttl")]
			wasFail := fb.failWrites
			fb.failWrites = false // async sets report nothing; keep them reliable
			c.SetAsync(k, val, ttl)
			fb.failWrites = wasFail
			s.Event("v%d SetAsync(%q,%d bytes,%v)", v, k, len(val), ttl)
			record(v, k, val, ttl, nil)
		case 4:
			ttl := ttls[s.Choose(len(ttls), "ttl")]
			data := map[string][]byte{}
			for j := 0; j < s.Range(1, 3, "multi-n"); j++ {
				data[keys[s.Choose(len(keys), "key")]] = newValue()
			}
			c.SetMultiAsync(data, ttl)
			var ks []string
			for kk := range data {
				ks = append(ks, kk)
			}
			sort.Strings(ks)
			s.Event("v%d SetMultiAsync(%q,%v)", v, ks, ttl)
			for _, kk := range ks {
				record(v, kk, data[kk], ttl, nil)
			}
		case 5:
			err := c.Delete(ctx, k)
			s.Event("v%d Delete(%q) -> %v", v, k, err)
			e := get(v, k)
			if err == nil {
				e.latest, e.maybe = nil, nil
			} else {
				// a failed delete may have removed the entry from some layers only
				e.deleteFailedAfter = true
			}
		case 6, 7, 8:
			req := []string{k}
			for j := 0; j < s.Choose(3, "extra-keys"); j++ {
				req = append(req, keys[s.Choose(len(keys), "key")])
			}
			var res map[string][]byte
			var err error
			if s.Chance(0.5, "with-error") {
				res, err = c.GetMultiWithError(ctx, req)
			} else {
				res = c.GetMulti(ctx, req)
			}
			var got []string
			for rk := range res {
				got = append(got, rk)
			}
			sort.Strings(got)
			s.Event("v%d GetMulti(%q) -> keys %q err=%v", v, req, got, err)
			for _, rk := range got {
				requested := false
				for _, q := range req {
					if q == rk {
						requested = true
					}
				}
				if !requested {
					s.Fail("unrequested-key", "", "GetMulti(%q) under version %d returned key %q", req, v, rk)
				}
				e := get(v, rk)
				val := res[rk]
				cands := []*stored{}
				if e.latest != nil {
					cands = append(cands, e.latest)
				}
				cands = append(cands, e.maybe...)
				okVal := false
				var why []string
				for _, st := range cands {
					if !bytes.Equal(st.value, val) {
						continue
					}
					lg, backendLive := legal(st, true)
					if lg {
						okVal = true
						if backendLive && !fb.dropReads {
							st.lastBackfillAt, st.hasBackfill = localNow, true
						} else if hasLRU {
							servedFromLRU = true
						}
					} else {
						why = append(why, fmt.Sprintf("stored at local %v / backend %v with ttl %v, now local %v / backend %v, last back-fill %v (%v), lru default %v", st.localAt, st.backendAt, st.ttl, localNow, backendNow, st.lastBackfillAt, st.hasBackfill, defaultTTL))
					}
				}
				if !okVal {
					switch {
					case len(cands) == 0:
						s.Fail("deleted-or-never-stored-returned", "", "version %d key %q: returned %d bytes %q but nothing is stored (deleted or never written); stack=%v", v, rk, len(val), trunc(val), layers)
					case len(why) > 0:
						s.Fail("expired-returned", "", "version %d key %q: returned value after expiry: %s; stack=%v", v, rk, strings.Join(why, "; "), layers)
					default:
						s.Fail("wrong-value", "", "version %d key %q: returned %q, latest stored %q; stack=%v", v, rk, trunc(val), trunc(cands[0].value), layers)
					}
				}
			}
		case 9:
			d := sim.Pick(s, "advance", time.Second, 500*time.Millisecond, 4*time.Second, 6*time.Second, 25*time.Second, 31*time.Second)
			which := 0
			if skewOn {
				which = s.Choose(3, "advance-which")
			}
			switch which {
			case 0:
				s.Advance(d)
				mock.Advance(d)
				localNow += d
				backendNow += d
			case 1:
				s.Advance(d) // the local clock runs ahead of the backend
				localNow += d
				s.Fault("clock-skew-local-ahead")
			case 2:
				mock.Advance(d) // the backend clock runs ahead
				backendNow += d
				s.Fault("clock-skew-backend-ahead")
			}
			s.Probe("clock-advanced")
		}
	}
	if servedFromLRU {
		s.Nontrivial = true
		s.Probe("read-served-by-lru-after-backend-expiry")
	}
	s.Note("stack(client..backend)=%v versions=%v lru(size=%d default=%v) faults=%v skew=%v ops=%d", layers, versions, lruSize, defaultTTL, faultsOn, skewOn, steps)
	s.State(layers, versions, lruSize, len(model), faultsOn, skewOn)
}

func trunc(b []byte) string {
	if len(b) > 16 {
		return fmt.Sprintf("%x...(%d bytes)", b[:16], len(b))
	}
	return fmt.Sprintf("%x", b)
}

// runSelector: the server for a key depends only on the key and the naturally sorted list; adding
// one server at the end of that list moves a key only to the new server.
func runSelector(s *sim.Sim) {
	s.SigFromTrace = true
	n := s.Range(1, 64, "servers")
	s.Event("servers=%d", n)
	// name style: plain IPv4 literals, or IPv6 literals in a mix of canonical and expanded spellings (the
	// resolved address then sorts differently from the configured name: the list that counts is the configured one)
	style := s.Choose(2, "name-style")
	name := func(i int) string {
		if style == 0 {
			return fmt.Sprintf("10.0.0.%d:11211", i)
		}
		switch s.Choose(3, "spelling") {
		case 0:
			return fmt.Sprintf("[fd00::%x]:11211", i)
		case 1:
			return fmt.Sprintf("[fd00:0:0:0:0:0:0:%x]:11211", i)
		default:
			return fmt.Sprintf("[fd00:0::%x]:11211", i)
		}
	}
	var servers []string
	for i := 1; i <= n; i++ {
		servers = append(servers, name(i))
	}
	natsort.Sort(servers) // "servers" is kept in the natural order of the configured names
	shuffled := func() []string {
		out := make([]string, len(servers))
		switch s.Choose(6, "list-order-kind") {
		case 0: // as discovered in plain string order (10.0.0.10 before 10.0.0.2)
			copy(out, servers)
			sort.Strings(out)
		case 1: // natural order
			copy(out, servers)
		case 2: // reversed
			for i := range servers {
				out[len(servers)-1-i] = servers[i]
			}
		default:
			for i, j := range s.Perm(len(servers), "list-order") {
				out[i] = servers[j]
			}
		}
		return out
	}
	a, b := &cache.MemcachedJumpHashSelector{}, &cache.MemcachedJumpHashSelector{}
	if err := a.SetServers(shuffled()...); err != nil {
		s.Fail("set-servers", "", "%v", err)
	}
	if err := b.SetServers(shuffled()...); err != nil {
		s.Fail("set-servers", "", "%v", err)
	}
	var keys []string
	for i := 0; i < 40; i++ {
		keys = append(keys, fmt.Sprintf("key-%d-%d", s.Choose(1<<20, "key"), i))
	}
	before := map[string]string{}
	for _, k := range keys {
		x, err1 := a.PickServer(k)
		y, err2 := b.PickServer(k)
		if err1 != nil || err2 != nil || x.String() != y.String() {
			s.Fail("selector-order-dependent", "", "key %q: %v/%v vs %v/%v for the same server set in different order", k, x, err1, y, err2)
		}
		x2, _ := a.PickServer(k)
		if x2.String() != x.String() {
			s.Fail("selector-not-deterministic", "", "key %q picked %v then %v", k, x, x2)
		}
		before[k] = x.String()
	}
	if n < 200 {
		// a further server whose configured name comes last in natural order
		newName := ""
		for _, cand := range []string{fmt.Sprintf("10.0.0.%d:11211", n+1), fmt.Sprintf("[fd00::%x]:11211", n+1), fmt.Sprintf("[fd00::ffff:%x]:11211", n+1), fmt.Sprintf("[fe80::%x]:11211", n+1)} {
			if (style == 0) != strings.HasPrefix(cand, "10.") {
				continue
			}
			probe := append(append([]string{}, servers...), cand)
			natsort.Sort(probe)
			if probe[len(probe)-1] == cand {
				newName = cand
				break
			}
		}
		if newName == "" {
			s.Note("selector servers=%d (no appendable name)", n)
			return
		}
		ra, rerr := net.ResolveTCPAddr("tcp", newName)
		if rerr != nil {
			s.Fail("set-servers", "", "%v", rerr)
		}
		newServer := ra.String()
		servers = append(servers, newName)
		if err := a.SetServers(shuffled()...); err != nil {
			s.Fail("set-servers", "", "%v", err)
		}
		moved := 0
		for _, k := range keys {
			x, _ := a.PickServer(k)
			if x.String() != before[k] {
				moved++
				if x.String() != newServer {
					s.Fail("selector-reshuffle", "", "after appending %s (configured names in natural order: %v) key %q moved from %s to %s", newName, servers, k, before[k], x)
				}
			}
		}
		if moved > 0 {
			s.Nontrivial = true
		}
	}
	s.Note("selector servers=%d", n)
	s.State("selector", n)
}
