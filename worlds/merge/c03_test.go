package wmerge

// C03 – ring state merge is a CRDT. MERGE world: bare replicas of ring.Desc / ring.PartitionRingDesc
// (no KV, no goroutines); writers produce updates under the statement's proviso (one writer per
// entry, a new timestamp for every content change, disjoint token pools, removals are tombstones
// with a timestamp >= the last content); the simulated network delivers each update to each replica
// in any order, grouping (updates merged into one another first), multiplicity, as full states, or
// only as the changes returned by other replicas' merges.

import (
	"fmt"
	"sort"
	"strings"

	"github.com/grafana/dskit/kv/memberlist"
	"github.com/grafana/dskit/ring"
	"github.com/grafana/dskit/zzverif/sim"
)

func init() {
	sim.Register("C03", "instance-ring", 3, func(s *sim.Sim) { runMerge(s, false) })
	sim.Register("C03", "partition-ring", 2, func(s *sim.Sim) { runMerge(s, true) })
}

// ---- canonical content -----------------------------------------------------------------------

func canonRing(d *ring.Desc) string {
	var ids []string
	for id := range d.Ingesters {
		ids = append(ids, id)
	}
	sort.Strings(ids)
	var b []string
	for _, id := range ids {
		e := d.Ingesters[id]
		b = append(b, fmt.Sprintf("%s{%v ts=%d tok=%v zone=%s addr=%s reg=%d ro=%v/%d}", id, e.State, e.Timestamp, e.Tokens, e.Zone, e.Addr, e.RegisteredTimestamp, e.ReadOnly, e.ReadOnlyUpdatedTimestamp))
	}
	return strings.Join(b, " ")
}

func canonPart(d *ring.PartitionRingDesc) string {
	var pids []int
	for id := range d.Partitions {
		pids = append(pids, int(id))
	}
	sort.Ints(pids)
	var b []string
	for _, id := range pids {
		p := d.Partitions[int32(id)]
		b = append(b, fmt.Sprintf("p%d{%v ts=%d lock=%v/%d tok=%v}", id, p.State, p.StateTimestamp, p.StateChangeLocked, p.StateChangeLockedTimestamp, p.Tokens))
	}
	var oids []string
	for id := range d.Owners {
		oids = append(oids, id)
	}
	sort.Strings(oids)
	for _, id := range oids {
		o := d.Owners[id]
		b = append(b, fmt.Sprintf("%s{%v ts=%d part=%d}", id, o.State, o.UpdatedTimestamp, o.OwnedPartition))
	}
	return strings.Join(b, " ")
}

func canon(m memberlist.Mergeable) string {
	switch d := m.(type) {
	case *ring.Desc:
		if d == nil {
			return ""
		}
		return canonRing(d)
	case *ring.PartitionRingDesc:
		if d == nil {
			return ""
		}
		return canonPart(d)
	case nil:
		return ""
	}
	return fmt.Sprintf("%T", m)
}

func empty(part bool) memberlist.Mergeable {
	if part {
		return ring.NewPartitionRingDesc()
	}
	return ring.NewDesc()
}

func clone(m memberlist.Mergeable) memberlist.Mergeable {
	switch d := m.(type) {
	case *ring.Desc:
		c := ring.NewDesc()
		for id, e := range d.Ingesters {
			e.Tokens = append([]uint32(nil), e.Tokens...)
			c.Ingesters[id] = e
		}
		return c
	case *ring.PartitionRingDesc:
		c := ring.NewPartitionRingDesc()
		for id, p := range d.Partitions {
			p.Tokens = append([]uint32(nil), p.Tokens...)
			c.Partitions[id] = p
		}
		for id, o := range d.Owners {
			c.Owners[id] = o
		}
		return c
	}
	return m.Clone()
}

// ---- updates under the proviso ----------------------------------------------------------------

func genRingUpdates(s *sim.Sim) (updates []memberlist.Mergeable, ref map[string]ring.InstanceDesc) {
	ref = map[string]ring.InstanceDesc{}
	ids := []string{"A", "B", "C"}[:s.Range(2, 3, "ids")]
	for wi, id := range ids {
		pool := []uint32{uint32(wi*100 + 1), uint32(wi*100 + 2), uint32(wi*100 + 3), uint32(0xffffff00 + wi)}
		n := s.Range(1, 4, "versions")
		ts := int64(1)
		left := false
		var last ring.InstanceDesc
		for v := 0; v < n; v++ {
			var e ring.InstanceDesc
			if left {
				// a re-join after a removal needs a strictly newer timestamp
				ts += int64(s.Range(1, 2, "ts-step"))
			} else if v > 0 {
				ts += int64(s.Range(1, 2, "ts-step"))
			}
			if v > 0 && !left && s.Chance(0.35, "remove") {
				// removal: tombstone, same second as the last content or later
				if s.Chance(0.5, "same-second") {
					ts = last.Timestamp
				}
				e = ring.InstanceDesc{State: ring.LEFT, Timestamp: ts, Addr: last.Addr, Zone: last.Zone, Id: id}
				left = true
			} else {
				state := []ring.InstanceState{ring.ACTIVE, ring.LEAVING, ring.PENDING, ring.JOINING}[s.Choose(4, "state")]
				var toks []uint32
				for _, t := range pool {
					if s.Chance(0.5, "token") {
						toks = append(toks, t)
					}
				}
				e = ring.InstanceDesc{Id: id, Addr: "addr-" + id, Zone: []string{"", "z1", "z2"}[s.Choose(3, "zone")], State: state, Tokens: toks, Timestamp: ts, RegisteredTimestamp: 1}
				if s.Chance(0.2, "read-only") {
					e.ReadOnly, e.ReadOnlyUpdatedTimestamp = true, ts
				}
				left = false
			}
			last = e
			// newest timestamp wins; at equal timestamps a removal wins
			if cur, ok := ref[id]; !ok || e.Timestamp > cur.Timestamp || (e.Timestamp == cur.Timestamp && e.State == ring.LEFT) {
				ref[id] = e
			}
			d := ring.NewDesc()
			d.Ingesters[id] = e
			updates = append(updates, d)
		}
	}
	return updates, ref
}

func genPartUpdates(s *sim.Sim) (updates []memberlist.Mergeable, ref *ring.PartitionRingDesc) {
	ref = ring.NewPartitionRingDesc()
	np := s.Range(1, 3, "partitions")
	for p := int32(0); p < int32(np); p++ {
		tokens := []uint32{uint32(p*10 + 1), uint32(p*10 + 2)}
		// the state and the state-change lock of a partition are two last-writer-wins registers with their own
		// timestamps; they may be written on different nodes, so an update may combine any version of the one
		// with any version of the other (a writer publishes what it has seen of both)
		type stateV struct {
			st ring.PartitionState
			ts int64
		}
		type lockV struct {
			locked bool
			ts     int64
		}
		states := []stateV{{ring.PartitionPending, 1}}
		for v, n := 0, s.Range(0, 3, "state-versions"); v < n; v++ {
			last := states[len(states)-1]
			st := []ring.PartitionState{ring.PartitionPending, ring.PartitionActive, ring.PartitionInactive, ring.PartitionDeleted}[s.Choose(4, "pstate")]
			ts := last.ts + int64(s.Range(1, 2, "ts-step"))
			if st == ring.PartitionDeleted && last.st != ring.PartitionDeleted && s.Chance(0.4, "removed-in-the-same-second") {
				ts = last.ts // at equal timestamps a removal wins
			}
			states = append(states, stateV{st, ts})
		}
		locks := []lockV{{false, 0}}
		for v, n := 0, s.Range(0, 3, "lock-versions"); v < n; v++ {
			last := locks[len(locks)-1]
			locks = append(locks, lockV{!last.locked, last.ts + int64(s.Range(1, 2, "ts-step"))})
		}
		mk := func(i, j int) ring.PartitionDesc {
			return ring.PartitionDesc{Id: p, Tokens: append([]uint32(nil), tokens...), State: states[i].st, StateTimestamp: states[i].ts, StateChangeLocked: locks[j].locked, StateChangeLockedTimestamp: locks[j].ts}
		}
		emit := func(i, j int) {
			d := ring.NewPartitionRingDesc()
			d.Partitions[p] = mk(i, j)
			updates = append(updates, d)
		}
		for i := range states {
			emit(i, s.Choose(len(locks), "lock-seen"))
		}
		for j := range locks {
			emit(s.Choose(len(states), "state-seen"), j)
		}
		ref.Partitions[p] = mk(len(states)-1, len(locks)-1)
	}
	no := s.Range(0, 2, "owners")
	for o := 0; o < no; o++ {
		id := fmt.Sprintf("owner-%d", o)
		n := s.Range(1, 3, "versions")
		ts := int64(1)
		var last ring.OwnerDesc
		for v := 0; v < n; v++ {
			var od ring.OwnerDesc
			if v > 0 && last.State != ring.OwnerDeleted && s.Chance(0.4, "remove") {
				if !s.Chance(0.5, "same-second") {
					ts += int64(s.Range(1, 2, "ts-step"))
				}
				od = ring.OwnerDesc{OwnedPartition: last.OwnedPartition, State: ring.OwnerDeleted, UpdatedTimestamp: ts}
			} else {
				if v > 0 {
					ts += int64(s.Range(1, 2, "ts-step"))
				}
				od = ring.OwnerDesc{OwnedPartition: int32(s.Choose(np, "owned")), State: ring.OwnerActive, UpdatedTimestamp: ts}
			}
			last = od
			if cur, ok := ref.Owners[id]; !ok || od.UpdatedTimestamp > cur.UpdatedTimestamp || (od.UpdatedTimestamp == cur.UpdatedTimestamp && od.State == ring.OwnerDeleted) {
				ref.Owners[id] = od
			}
			d := ring.NewPartitionRingDesc()
			d.Owners[id] = od
			updates = append(updates, d)
		}
	}
	return updates, ref
}

func maxI(a, b int64) int64 {
	if a > b {
		return a
	}
	return b
}

// ---- the run -----------------------------------------------------------------------------------

func runMerge(s *sim.Sim, part bool) {
	s.SigFromTrace = true
	var updates []memberlist.Mergeable
	var refCanon string
	if part {
		u, ref := genPartUpdates(s)
		updates, refCanon = u, canonPart(ref)
	} else {
		u, ref := genRingUpdates(s)
		updates = u
		d := ring.NewDesc()
		for id, e := range ref {
			if e.State == ring.LEFT {
				e.Tokens = nil
			}
			d.Ingesters[id] = e
		}
		refCanon = canonRing(d)
	}
	nRep := s.Range(2, 4, "replicas")
	reps := make([]memberlist.Mergeable, nRep)
	seen := make([]map[int]bool, nRep)
	orders := make([][]int, nRep)
	for i := range reps {
		reps[i] = empty(part)
		seen[i] = map[int]bool{}
	}
	var deltas []memberlist.Mergeable // changes returned by merges: deliverable like any update

	mergeInto := func(ri int, payload memberlist.Mergeable, what string) {
		pre := clone(reps[ri])
		preCanon := canon(pre)
		var change memberlist.Mergeable
		var err error
		func() {
			defer func() {
				if r := recover(); r != nil {
					s.Fail("panic", "", "Merge panicked: %v (replica %s, incoming %s)", r, preCanon, canon(payload))
				}
			}()
			change, err = reps[ri].Merge(clone(payload), false)
		}()
		if err != nil {
			s.Fail("merge-error", "", "Merge returned %v", err)
		}
		post := canon(reps[ri])
		s.Event("r%d <- %s [%s] => change [%s]", ri, what, canon(payload), canon(change))
		if change == nil || canon(change) == "" {
			if post != preCanon {
				s.Fail("no-change-but-content-changed", "", "Merge reported no change but the content went from [%s] to [%s] (incoming [%s])", preCanon, post, canon(payload))
			}
		} else {
			// the reported change is sufficient: pre + change == post
			redo := pre
			if _, err := redo.Merge(clone(change), false); err != nil {
				s.Fail("merge-error", "", "%v", err)
			}
			if canon(redo) != post {
				s.Fail("change-not-sufficient", "", "merging the reported change [%s] into the pre-merge state [%s] gives [%s]; merging the full incoming descriptor [%s] gave [%s]", canon(change), preCanon, canon(redo), canon(payload), post)
			}
			deltas = append(deltas, clone(change))
		}
		// idempotence
		again, _ := reps[ri].Merge(clone(payload), false)
		if (again != nil && canon(again) != "") || canon(reps[ri]) != post {
			s.Fail("not-idempotent", "", "merging [%s] a second time changed [%s] to [%s] (change [%s])", canon(payload), post, canon(reps[ri]), canon(again))
		}
	}

	steps := s.Range(3, 14, "deliveries")
	for i := 0; i < steps && !s.Failed(); i++ {
		ri := s.Choose(nRep, "replica")
		switch k := s.Choose(6, "kind"); {
		case k <= 2 || (k == 4 && len(deltas) == 0):
			j := s.Choose(len(updates), "update")
			seen[ri][j] = true
			orders[ri] = append(orders[ri], j)
			mergeInto(ri, updates[j], fmt.Sprintf("u%d", j))
		case k == 3:
			// full state of another replica (push/pull)
			o := s.Choose(nRep, "from-replica")
			for j := range seen[o] {
				seen[ri][j] = true
			}
			mergeInto(ri, reps[o], fmt.Sprintf("state-of-r%d", o))
		case k == 4:
			// a change reported earlier by some merge (re-broadcast); it only carries what its producer had
			j := s.Choose(len(deltas), "delta")
			mergeInto(ri, deltas[j], fmt.Sprintf("delta%d", j))
		case k == 5:
			// a group: several updates merged into one another first
			g := empty(part)
			var names []string
			for n := 0; n < s.Range(2, 3, "group-size"); n++ {
				j := s.Choose(len(updates), "update")
				if _, err := g.Merge(clone(updates[j]), false); err != nil {
					s.Fail("merge-error", "", "%v", err)
				}
				seen[ri][j] = true
				names = append(names, fmt.Sprintf("u%d", j))
			}
			mergeInto(ri, g, "group("+strings.Join(names, "+")+")")
		}
	}
	// everybody eventually receives every update (in its own order) ...
	for ri := range reps {
		for _, j := range s.Perm(len(updates), "final-order") {
			if !seen[ri][j] || s.Chance(0.2, "redeliver") {
				mergeInto(ri, updates[j], fmt.Sprintf("u%d", j))
			}
		}
	}
	// ... a replica fed only full updates (F) and one fed only the changes F reported (D)
	f, dOnly := empty(part), empty(part)
	for _, j := range s.Perm(len(updates), "f-order") {
		ch, _ := f.Merge(clone(updates[j]), false)
		if ch != nil {
			if _, err := dOnly.Merge(clone(ch), false); err != nil {
				s.Fail("merge-error", "", "%v", err)
			}
		}
	}
	if canon(dOnly) != canon(f) {
		s.Fail("deltas-not-sufficient", "", "a replica fed only reported changes holds [%s]; the replica fed the full updates holds [%s]", canon(dOnly), canon(f))
	}
	// convergence + last-writer-wins reference
	for ri := range reps {
		if c := canon(reps[ri]); c != refCanon {
			s.Fail("no-convergence", "", "replica %d holds [%s] after receiving every update; newest-timestamp-wins (removal wins ties) gives [%s]; its delivery order of originals: %v", ri, c, refCanon, orders[ri])
		}
	}
	if canon(f) != refCanon {
		s.Fail("no-convergence", "", "sequentially fed replica holds [%s], reference [%s]", canon(f), refCanon)
	}
	diff := false
	for ri := 1; ri < nRep; ri++ {
		if fmt.Sprint(orders[ri]) != fmt.Sprint(orders[0]) {
			diff = true
		}
	}
	if diff && len(updates) >= 3 {
		s.Nontrivial = true
	}
	s.Note("partition-ring=%v updates=%d replicas=%d deliveries=%d final=[%s]", part, len(updates), nRep, steps, refCanon)
	s.State(part, refCanon)
}
