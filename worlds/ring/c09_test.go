package wring

// C09 – a lifecycler recovers its identity after a crash at any point or KV faults.
//
// Crash points are enumerated systematically from the run index: scenario x lifecycler kind x
// (store write k, before/after its commit) and tokens-file operation j (before / after / torn).
// Other lifecyclers keep running with seeded interleavings.

import (
	"context"
	"fmt"
	"strings"
	"time"

	"github.com/grafana/dskit/ring"
	"github.com/grafana/dskit/services"
	"github.com/grafana/dskit/zzverif/sim"
	"github.com/grafana/dskit/zzverifrt/simos"
)

var c09Scenarios = []string{"fresh", "observe", "tokens-file", "leave-unregister", "leave-keep", "handover", "wipe", "kv-outage", "wipe-while-leaving", "file-faults", "restart-then-wipe", "forget-during-restart", "outage-during-join"}

const c09CrashPoints = 24 // 0..19: store write k=(cp/2)%7+1 (k=1..7), side=cp%2; 20..23: tokens-file operation variants

func init() {
	sim.Register("C09", "crash-restart", 1, runC09)
}

// drive runs the scheduler until done() or the virtual deadline; it releases parked tasks, delivers
// watch notifications and advances the clock only when nothing is parked (no stalls).
func (w *world) drive(label string, done func() bool, maxVirtual time.Duration, extra func()) bool {
	s := w.s
	deadline := s.Elapsed() + maxVirtual
	for i := 0; i < 3000 && s.Budget(); i++ {
		s.Wait()
		w.checkCommits()
		w.checkTokensFiles()
		if extra != nil {
			extra()
		}
		if done() {
			return true
		}
		if s.Elapsed() >= deadline {
			return false
		}
		names := s.Parked()
		pend := w.store.PendingWatchers()
		switch {
		case len(names) > 0:
			// crashed actors' tasks never run again
			var live []string
			for _, n := range names {
				if a := w.byID[strings.SplitN(n, ":", 2)[0]]; a != nil && a.crashed {
					continue
				}
				if w.hold != nil && w.hold(n) {
					continue // a slow operation the scenario keeps in flight while the clock moves on
				}
				live = append(live, n)
			}
			if len(live) == 0 {
				s.Advance(sim.Pick(s, label+"-advance", time.Second, 300*time.Millisecond, 2900*time.Millisecond, 5*time.Second))
				continue
			}
			s.Release(live[s.Choose(len(live), label+"-step")])
		case len(pend) > 0:
			n := pend[0]
			s.Do(n, func() { w.store.Deliver(n) })
		default:
			s.Advance(sim.Pick(s, label+"-advance", time.Second, 300*time.Millisecond, 2900*time.Millisecond, 5*time.Second))
		}
	}
	return done()
}

// checkTokensFiles: at every instant a tokens file either does not exist or holds a complete token
// list (never a partial one).
func (w *world) checkTokensFiles() {
	for _, a := range w.actors {
		if a.tokensPath == "" {
			continue
		}
		b, ok := w.fs.Snapshot(a.tokensPath)
		if !ok {
			continue
		}
		var t ring.Tokens
		if w.corruptAtStart != "" && string(b) == w.corruptAtStart {
			continue // left behind by an earlier life of the instance (injected before the start)
		}
		if err := t.Unmarshal(b); err != nil {
			w.s.Fail("tokens-file-corrupt", "", "tokens file of %s is not a complete token list: %q (%v)", a.id, string(b), err)
		}
		for _, x := range t {
			if !a.gen.gen[x] && !a.inheritedTokens[x] {
				w.s.Fail("tokens-file-corrupt", "", "tokens file of %s holds token %d which it never owned (content %q)", a.id, x, string(b))
			}
		}
	}
}

// safeWipe deletes the ring key. In-flight CAS calls (between read and write) are completed first:
// the in-memory consul store would accept their stale write on the deleted key and resurrect the
// old ring (a real consul does not).
func (w *world) safeWipe() {
	s := w.s
	for i := 0; i < 50; i++ {
		var inflight []string
		for _, n := range s.Parked() {
			if isInFlight(n) {
				inflight = append(inflight, n)
			}
		}
		if len(inflight) == 0 {
			break
		}
		s.Release(inflight[0])
	}
	s.Fault("ring-wiped")
	for _, b := range w.actors {
		b.lastTS = 0
	}
	s.Do("wipe", func() { _ = w.store.Wipe(ringKey) })
}

func runC09(s *sim.Sim) {
	idx := s.RunIndex
	scen := c09Scenarios[idx%len(c09Scenarios)]
	idx /= len(c09Scenarios)
	kind := []lcKind{kindClassic, kindBasic}[idx%2]
	idx /= 2
	cp := idx % c09CrashPoints
	if scen == "handover" && kind == kindBasic {
		scen = "fresh"
	}
	if scen == "file-faults" {
		cp = 20 + cp%4
	}
	w := newWorld(s)
	w.faultsOn = true // published states may skip a state whose write died with the process
	// ---- the victim
	v := w.addActor(0, []lcKind{kind}, []string{"", "a"})
	v.heartbeat = sim.Pick(s, "v-heartbeat", 5*time.Second, 15*time.Second)
	v.registerState = ring.ACTIVE
	v.autoForget = 0
	v.joinAfter = sim.Pick(s, "v-join-after", 0, 1300*time.Millisecond)
	v.observe = 0
	v.unregister = true
	v.tokensPath = ""
	switch scen {
	case "outage-during-join":
		if s.Chance(0.7, "with-observe") {
			v.observe = 2900 * time.Millisecond
		}
	case "observe":
		v.observe = 2900 * time.Millisecond
	case "tokens-file", "file-faults":
		v.tokensPath = "/tokens/" + v.id
	case "leave-keep", "restart-then-wipe", "forget-during-restart":
		v.unregister = false
	}
	if s.Chance(0.3, "v-tokens-file-anyway") {
		v.tokensPath = "/tokens/" + v.id
	}
	// ---- bystanders
	nb := s.Choose(3, "bystanders")
	for i := 1; i <= nb; i++ {
		b := w.addActor(i, []lcKind{kindClassic, kindBasic}, []string{"", "a", "b"})
		b.autoForget = 0
		b.tokensPath = ""
		if b.heartbeat == 0 {
			b.heartbeat = 5 * time.Second
		}
	}
	for _, a := range w.actors {
		w.build(a)
	}
	s.OnEnd(func() {
		for _, a := range w.actors {
			if a.started && !a.crashed {
				a.svc.StopAsync()
			}
		}
	})
	for _, b := range w.actors[1:] {
		w.start(b)
	}
	entry := func() (ring.InstanceDesc, bool) {
		e, ok := w.desc().Ingesters[v.id]
		return e, ok
	}
	activeWithTokens := func() bool {
		e, ok := entry()
		// after a hand-over the instance owns what the source owned
		return ok && e.State == ring.ACTIVE && (len(e.Tokens) >= v.numTokens || (v.handover && len(e.Tokens) > 0))
	}
	settle := 2*time.Minute + v.joinAfter + 4*v.observe

	// tokens-file scenario: the victim lived before (file and possibly a ring entry left behind)
	if scen == "tokens-file" || (scen == "file-faults" && s.Chance(0.5, "had-previous-life")) {
		toks := ring.Tokens{}
		for j := 0; j < s.Range(1, 4, "file-tokens"); j++ {
			toks = append(toks, uint32(9_000_000+j*13))
		}
		bts, _ := toks.Marshal()
		w.fs.Put(v.tokensPath, bts)
		for _, t := range toks {
			v.inheritedTokens[t] = true
		}
	}
	// a corrupt / unreadable file present at start is a legal situation too
	if v.tokensPath != "" && scen == "file-faults" && s.Chance(0.3, "corrupt-file-at-start") {
		w.fs.Put(v.tokensPath, []byte(`{"tokens":[12,`))
		w.corruptAtStart = `{"tokens":[12,`
		s.Fault("tokens-file-corrupt-at-start")
	}

	// ---- bring the victim to the scenario's starting situation
	needsActiveFirst := scen == "leave-unregister" || scen == "leave-keep" || scen == "wipe" || scen == "kv-outage" || scen == "wipe-while-leaving" || scen == "restart-then-wipe" || scen == "forget-during-restart"
	if scen == "restart-then-wipe" || scen == "forget-during-restart" {
		cp = 1000 // no crash: these scenarios combine a clean restart with a second fault
	}
	rejectFrom, rejectN := 0, 0
	if scen == "outage-during-join" {
		// the store rejects a few consecutive writes of the joining instance, then heals
		rejectFrom, rejectN = cp%8+1, []int{1, 3, 2}[cp/8%3]
		cp = 1000
	}
	if needsActiveFirst {
		if b, ok := w.fs.Snapshot(v.tokensPath); ok && v.tokensPath != "" {
			_ = b
		}
		w.markInherited(v)
		w.start(v)
		if !w.drive("pre", activeWithTokens, settle, nil) {
			s.Fail("no-initial-join", "", "victim %s did not become ACTIVE within %v without any fault: %s", v.id, settle, fmtDesc(w.desc()))
		}
	}
	var handoverFrom *actor
	if scen == "handover" {
		// a LEAVING instance with tokens must exist: stop a bystander that keeps its entry
		for _, b := range w.actors[1:] {
			if b.kind == kindClassic || b.kind == kindBasic {
				handoverFrom = b
				break
			}
		}
		if handoverFrom == nil {
			handoverFrom = w.addActor(len(w.actors), []lcKind{kindClassic}, []string{""})
			handoverFrom.tokensPath, handoverFrom.autoForget = "", 0
			w.build(handoverFrom)
			w.start(handoverFrom)
		}
		handoverFrom.unregister = false
		if handoverFrom.kind == kindClassic {
			handoverFrom.classic.SetUnregisterOnShutdown(false)
		} else {
			handoverFrom.basic.SetKeepInstanceInTheRingOnShutdown(true)
		}
		hasTokens := func() bool {
			e, ok := w.desc().Ingesters[handoverFrom.id]
			return ok && len(e.Tokens) > 0 && (e.State == ring.ACTIVE || e.State == ring.JOINING || e.State == ring.PENDING)
		}
		w.drive("pre", hasTokens, settle, nil)
		handoverFrom.stopAsked = true
		handoverFrom.svc.StopAsync()
		leaving := func() bool {
			e, ok := w.desc().Ingesters[handoverFrom.id]
			return ok && e.State == ring.LEAVING && handoverFrom.svc.State() == services.Terminated
		}
		if !w.drive("pre", leaving, settle, nil) {
			s.Note("handover source did not reach LEAVING; scenario degenerates to a fresh join")
			handoverFrom = nil
		}
	}

	// ---- arm the fault
	fileOps := 0
	crashedByFile := false
	if cp >= 1000 {
		// no crash
	} else if cp < 20 {
		v.kv.CrashAtWrite = v.kv.Writes + (cp/2)%7 + 1
		v.kv.CrashAfter = cp%2 == 1
	} else if v.tokensPath != "" {
		target := s.Range(1, 8, "file-op")
		mode := cp - 20 // 0 crash before, 1 crash after, 2 torn write + crash, 3 error without crash
		w.fs.Hook = func(op, path string, size int) simos.Decision {
			if !strings.HasPrefix(path, v.tokensPath) || v.crashed || op == "readfile" {
				return simos.Decision{}
			}
			fileOps++
			if fileOps != target {
				return simos.Decision{}
			}
			switch mode {
			case 0:
				s.Fault("file-crash-before-" + op)
				v.crashed, v.kv.Dead, crashedByFile = true, true, true
				return simos.Decision{Crash: true}
			case 1:
				s.Fault("file-crash-after-" + op)
				v.crashed, v.kv.Dead, crashedByFile = true, true, true
				return simos.Decision{CrashAfter: true}
			case 2:
				if op == "write" && size > 1 {
					s.Fault("file-torn-write")
					v.crashed, v.kv.Dead, crashedByFile = true, true, true
					return simos.Decision{Partial: size / 2, CrashAfter: true}
				}
				return simos.Decision{}
			default:
				s.Fault("file-error-" + op)
				return simos.Decision{Err: fmt.Errorf("injected disk error")}
			}
		}
	}
	_ = crashedByFile

	// ---- the action during which the fault lands
	crashed := func() bool { return v.kv.Dead || v.crashed }
	switch scen {
	case "fresh", "observe", "tokens-file", "file-faults", "outage-during-join":
		if rejectN > 0 {
			v.kv.FailFrom, v.kv.FailN = rejectFrom, rejectN
			s.Probe(fmt.Sprintf("crash-point:%s:%d:reject%d+%d", scen, kind, rejectFrom, rejectN))
		}
		w.markInherited(v)
		w.start(v)
		w.drive("act", func() bool { return crashed() || activeWithTokens() }, settle, nil)
	case "leave-unregister", "leave-keep", "restart-then-wipe", "forget-during-restart":
		v.stopAsked = true
		v.svc.StopAsync()
		w.drive("act", func() bool { return crashed() || v.svc.State() == services.Terminated || v.svc.State() == services.Failed }, settle, nil)
	case "handover":
		w.markInherited(v)
		w.start(v)
		if handoverFrom != nil {
			from := handoverFrom.id
			v.handover, handoverFrom.handover = true, true
			v.claimedFrom[from] = true
			for _, t := range w.desc().Ingesters[from].Tokens {
				v.inheritedTokens[t] = true
			}
			lc := v.classic
			s.Go("client-handover", func() {
				ctx := context.Background()
				if lc.ChangeState(ctx, ring.JOINING) != nil {
					return
				}
				if lc.ClaimTokensFor(ctx, from) != nil {
					return
				}
				_ = lc.ChangeState(ctx, ring.ACTIVE)
			})
		}
		w.drive("act", func() bool { return crashed() || activeWithTokens() }, settle, nil)
	case "wipe":
		before, _ := entry()
		wipedAt := s.Elapsed()
		w.safeWipe()
		back := func() bool { _, ok := entry(); return ok }
		if !w.drive("act", func() bool { return crashed() || back() }, 2*v.heartbeat+5*time.Second, nil) && !crashed() {
			s.Fail("not-re-registered-after-wipe", "", "the ring was wiped at %v; %s (heartbeat %v) is still missing %v later", wipedAt, v.id, v.heartbeat, s.Elapsed()-wipedAt)
		}
		if e, ok := entry(); ok && !crashed() {
			if e.State != before.State || fmt.Sprint(e.Tokens) != fmt.Sprint(before.Tokens) {
				s.Fail("re-registered-with-different-identity", "", "after the wipe %s came back as %s, before it was %s", v.id, fmtInst(e, true), fmtInst(before, true))
			}
			if e.RegisteredTimestamp < epoch().Add(wipedAt).Unix() {
				s.Fail("stale-registration-time-after-wipe", "", "after the wipe at %d %s re-registered with the old registration time %d", epoch().Add(wipedAt).Unix(), v.id, e.RegisteredTimestamp)
			}
			s.Probe("re-registered-after-wipe")
		}
	case "kv-outage":
		before, _ := entry()
		v.kv.FailCAS, v.kv.FailGet = true, s.Chance(0.5, "fail-get-too")
		v.kvWindowOpen = true
		s.Fault("kv-outage")
		w.drive("act", func() bool { return false }, sim.Pick(s, "outage", 3*time.Second, 20*time.Second, 70*time.Second), nil)
		v.kv.FailCAS, v.kv.FailGet = false, false
		v.kvWindowOpen = false
		closedAt := s.Elapsed()
		fresh := func() bool {
			e, ok := entry()
			return ok && e.Timestamp >= epoch().Add(closedAt).Unix()
		}
		if !w.drive("act", func() bool { return crashed() || fresh() }, 2*v.heartbeat+5*time.Second, nil) && !crashed() {
			s.Fail("no-heartbeat-after-outage", "", "the store accepts writes again since %v but %s (heartbeat %v) has not refreshed its entry", closedAt, v.id, v.heartbeat)
		}
		if e, ok := entry(); ok && !crashed() && (e.State != before.State || fmt.Sprint(e.Tokens) != fmt.Sprint(before.Tokens)) {
			s.Fail("identity-changed-by-outage", "", "after the outage %s is %s, before it was %s", v.id, fmtInst(e, true), fmtInst(before, true))
		}
	case "wipe-while-leaving":
		v.stopAsked = true
		v.svc.StopAsync()
		leavingSeen := func() bool { e, ok := entry(); return (ok && e.State == ring.LEAVING) || crashed() }
		w.drive("act", leavingSeen, settle, nil)
		before, beforeOK := entry()
		w.safeWipe()
		wipedAt := s.Elapsed()
		if beforeOK && v.heartbeat > 0 {
			// a shutdown that takes its time (slow hand-over, final sleep) keeps heartbeating: the next heartbeat
			// brings the entry back with the remembered state and tokens
			terminated := func() bool { st := v.svc.State(); return st == services.Terminated || st == services.Failed }
			back := func() bool { _, ok := entry(); return ok }
			w.hold = func(n string) bool { return n == "transfer-"+v.id }
			w.drive("act", func() bool { return crashed() || terminated() || back() }, 2*v.heartbeat+5*time.Second, nil)
			w.hold = nil
			switch {
			case crashed() || terminated():
			case !back():
				s.Fail("not-re-registered-after-wipe", "while-leaving", "the ring was wiped at %v while %s was shutting down (entry %s); it is still shutting down and heartbeating (period %v) %v later, and its entry is still missing", wipedAt, v.id, fmtInst(before, true), v.heartbeat, s.Elapsed()-wipedAt)
			default:
				e, _ := entry()
				if e.State != before.State || fmt.Sprint(e.Tokens) != fmt.Sprint(before.Tokens) {
					s.Fail("re-registered-with-different-identity", "while-leaving", "after the wipe during its shutdown %s came back as %s, before it was %s", v.id, fmtInst(e, true), fmtInst(before, true))
				}
				s.Probe("re-registered-after-wipe-while-leaving")
			}
		}
		w.drive("act", func() bool { return crashed() || v.svc.State() == services.Terminated || v.svc.State() == services.Failed }, settle, nil)
	}

	// ---- crash + restart
	didCrash := crashed()
	var pre ring.InstanceDesc
	var preOK bool
	if didCrash {
		v.crashed = true
		for _, n := range s.ParkedWithPrefix(v.id + ":") {
			s.Kill(n) // the dead process' other goroutines never run again
		}
		s.Probe("victim-crashed")
		s.Probe(fmt.Sprintf("crash-point:%s:%d:%d", scen, kind, cp))
		// downtime
		w.drive("down", func() bool { return false }, sim.Pick(s, "downtime", 0, time.Second, 20*time.Second), nil)
	} else if st := v.svc.State(); st != services.Terminated && st != services.Failed && (scen == "leave-unregister" || scen == "leave-keep" || scen == "wipe-while-leaving") {
		// still shutting down when the phase budget ended: let it finish
		w.drive("act", func() bool { st := v.svc.State(); return st == services.Terminated || st == services.Failed }, settle, nil)
	}
	needRestart := didCrash || v.svc.State() == services.Terminated || v.svc.State() == services.Failed
	if needRestart {
		w.fs.Hook = nil
		pre, preOK = entry()
		var fileTokens ring.Tokens
		if v.tokensPath != "" {
			if b, ok := w.fs.Snapshot(v.tokensPath); ok {
				_ = fileTokens.Unmarshal(b)
			}
		}
		wasHandover := v.handover
		if scen == "restart-then-wipe" && kind == kindClassic && s.Chance(0.5, "num-tokens-reconfigured") {
			// the operator changed the configured token count while the instance was down (entry LEAVING):
			// the restart tops the tokens up or trims them
			v.numTokens += sim.Pick(s, "num-tokens-delta", -2, -1, 1, 2)
			if v.numTokens < 1 {
				v.numTokens = 1
			}
			s.Probe("restart-with-other-token-count")
		}
		w.build(v)
		v.handover = wasHandover
		w.markInherited(v)
		firstCommit := len(w.store.Commits)
		firstGenCall := len(v.gen.calls)
		w.start(v)
		s.Probe("victim-restarted")
		if scen == "forget-during-restart" {
			// the operator forgets the instance while its first write after the restart is in flight
			w.drive("recover", func() bool { return s.IsParked(v.id + ":f") }, 10*time.Second, nil)
			if s.IsParked(v.id + ":f") {
				s.Fault("operator-forget")
				v.lastTS = 0
				_ = w.opKV.CAS(context.Background(), ringKey, func(in interface{}) (interface{}, bool, error) {
					d := ring.GetOrCreateRingDesc(in)
					d.RemoveIngester(v.id)
					return d, true, nil
				})
				s.Probe("forgotten-during-restart")
				preOK = false
			}
		}
		ok := w.drive("recover", activeWithTokens, settle, nil)
		if ok && scen == "restart-then-wipe" {
			before, _ := entry()
			w.safeWipe()
			back := func() bool { _, ok := entry(); return ok }
			if !w.drive("recover", back, 2*v.heartbeat+5*time.Second, nil) {
				s.Fail("not-re-registered-after-wipe", "", "restarted instance %s did not come back after a wipe", v.id)
			}
			if e, ok := entry(); ok && (e.State != before.State || fmt.Sprint(e.Tokens) != fmt.Sprint(before.Tokens)) {
				s.Fail("re-registered-with-different-identity", "", "restarted instance %s came back after a wipe as %s, before it was %s", v.id, fmtInst(e, true), fmtInst(before, true))
			}
			preOK = false
			s.Probe("restart-then-wipe-checked")
		}
		e, eok := entry()
		if !ok {
			s.Fail("no-recovery", "", "scenario %s/%v crash point %d: %s did not become ACTIVE with %d tokens within %v after the restart; entry now %s, entry at restart %s, service %v", scen, kind, cp, v.id, v.numTokens, settle, fmtInst(e, eok), fmtInst(pre, preOK), v.svc.State())
		}
		// identity
		keep := []uint32(nil)
		if preOK {
			keep = pre.Tokens
		} else {
			keep = fileTokens
		}
		have := map[uint32]bool{}
		for _, t := range e.Tokens {
			have[t] = true
		}
		if !v.tokensTaken {
			for _, t := range keep {
				if !have[t] && len(keep) <= len(e.Tokens) {
					s.Fail("tokens-not-kept", "", "scenario %s/%v crash point %d: %s had tokens %v recorded (ring entry present=%v) but holds %v after the restart", scen, kind, cp, v.id, keep, preOK, e.Tokens)
				}
			}
		}
		if preOK && pre.RegisteredTimestamp != 0 && e.RegisteredTimestamp != pre.RegisteredTimestamp {
			s.Fail("registration-time-not-kept", "", "scenario %s/%v crash point %d: registration time %d before, %d after the restart", scen, kind, cp, pre.RegisteredTimestamp, e.RegisteredTimestamp)
		}
		// restart edges of the classic lifecycler
		if kind == kindClassic && preOK {
			for _, c := range w.store.Commits[firstCommit:] {
				if c.Writer != v.id {
					continue
				}
				in, _ := c.In.(*ring.Desc)
				out, _ := c.Out.(*ring.Desc)
				if in == nil || out == nil {
					break
				}
				ie, iok := in.Ingesters[v.id]
				oe, ook := out.Ingesters[v.id]
				if iok && ook && ie.State == ring.JOINING && oe.State != ring.PENDING {
					s.Fail("joining-not-reset-to-pending", "", "scenario %s crash point %d: %s died while JOINING; its first write after the restart published %v instead of PENDING", scen, cp, v.id, oe.State)
				}
				if iok && ook && ie.State == ring.LEAVING && oe.State != ring.ACTIVE {
					s.Fail("leaving-not-reset-to-active", "", "scenario %s crash point %d: %s died while LEAVING; its first write after the restart published %v instead of ACTIVE", scen, cp, v.id, oe.State)
				}
				break
			}
		}
		// no token shared with another instance (after a wipe other instances may legitimately have
		// picked tokens this instance still remembers)
		d := w.desc()
		for id, x := range d.Ingesters {
			if scen == "wipe" || scen == "wipe-while-leaving" || scen == "restart-then-wipe" {
				break
			}
			if id == v.id {
				continue
			}
			// only tokens picked after the restart count: a token remembered from the tokens file may have
			// been taken by somebody else while the instance was unregistered
			fresh := map[uint32]bool{}
			for _, gc := range v.gen.calls[firstGenCall:] {
				for _, t := range gc.out {
					fresh[t] = true
				}
			}
			for _, t := range x.Tokens {
				if have[t] && fresh[t] {
					s.Fail("token-collision-after-restart", "", "scenario %s crash point %d: token %d is held by %s and by %s", scen, cp, t, v.id, id)
				}
			}
		}
		if didCrash && cp < 20 && (cp/2)%7+1 >= 2 {
			s.Nontrivial = true
		}
		if didCrash && cp >= 20 {
			s.Nontrivial = true
		}
	}
	if scen == "outage-during-join" {
		// the classic lifecycler gives up (service fails) if it cannot write during start-up; whenever it
		// keeps running it must end up ACTIVE with its tokens once the store accepts writes again
		st := v.svc.State()
		if st == services.Running && !activeWithTokens() {
			if !w.drive("recover", func() bool { return activeWithTokens() || v.svc.State() != services.Running }, settle, nil) {
				e, ok := entry()
				s.Fail("no-recovery", "", "scenario %s/%v: the store rejected %d writes starting with write %d, then healed; %s keeps running but is %s after %v", scen, kind, rejectN, rejectFrom, v.id, fmtInst(e, ok), settle)
			}
		}
		if v.kv.FailN < rejectN {
			s.Nontrivial = true
		}
	}
	if scen == "wipe" || scen == "kv-outage" || scen == "restart-then-wipe" || scen == "forget-during-restart" {
		s.Nontrivial = true
	}
	s.Note("scenario=%s kind=%v crash-point=%d crashed=%v restarted=%v pre=%s final=%s", scen, kind, cp, didCrash, needRestart, fmtInst(pre, preOK), fmtDesc(w.desc()))
	s.State(scen, kind, cp, didCrash)
}
