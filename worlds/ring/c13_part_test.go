package wring

// C13, partition ring half: a long-lived PartitionRingWatcher (shard caches: map or small LRU) fed through
// the store's watch answers like a PartitionRing freshly built from the last content it was handed.

import (
	"context"
	"fmt"
	"sort"
	"strings"
	"sync"
	"time"

	"github.com/grafana/dskit/kv/consul"
	"github.com/grafana/dskit/ring"
	"github.com/grafana/dskit/services"
	"github.com/grafana/dskit/zzverif/sim"
	"github.com/grafana/dskit/zzverif/simkv"
)

const partKey = "partitions"

func init() {
	sim.Register("C13", "partition-watcher", 2, runC13Partitions)
}

func clonePartDesc(v interface{}) interface{} {
	d, ok := v.(*ring.PartitionRingDesc)
	if !ok || d == nil {
		return nil
	}
	return deepPartDesc(d)
}

func deepPartDesc(d *ring.PartitionRingDesc) *ring.PartitionRingDesc {
	out := ring.NewPartitionRingDesc()
	if d == nil {
		return out
	}
	for id, p := range d.Partitions {
		p.Tokens = append([]uint32(nil), p.Tokens...)
		out.Partitions[id] = p
	}
	for id, o := range d.Owners {
		out.Owners[id] = o
	}
	return out
}

func fmtPartDesc(d *ring.PartitionRingDesc) string {
	var parts []string
	var pids []int
	for id := range d.Partitions {
		pids = append(pids, int(id))
	}
	sort.Ints(pids)
	for _, id := range pids {
		p := d.Partitions[int32(id)]
		tok := fmt.Sprint(p.Tokens)
		if len(p.Tokens) > 4 {
			tok = fmt.Sprintf("[%d tokens]", len(p.Tokens))
		}
		parts = append(parts, fmt.Sprintf("p%d{%v ts=%d lock=%v/%d tok=%s}", id, p.State, p.StateTimestamp, p.StateChangeLocked, p.StateChangeLockedTimestamp, tok))
	}
	var oids []string
	for id := range d.Owners {
		oids = append(oids, id)
	}
	sort.Strings(oids)
	for _, id := range oids {
		o := d.Owners[id]
		parts = append(parts, fmt.Sprintf("%s{%v p%d ts=%d}", id, o.State, o.OwnedPartition, o.UpdatedTimestamp))
	}
	return strings.Join(parts, " ")
}

// partFP renders everything a PartitionRing answers about itself.
func partFP(r *ring.PartitionRing, err error) string {
	if err != nil {
		return "err(" + err.Error() + ")"
	}
	var b strings.Builder
	fmt.Fprintf(&b, "n=%d active=%d max=%d ids=%v pending=%v active=%v inactive=%v", r.PartitionsCount(), r.ActivePartitionsCount(), r.MaxPartitionID(), r.PartitionIDs(), r.PendingPartitionIDs(), r.ActivePartitionIDs(), r.InactivePartitionIDs())
	ps := r.Partitions()
	sort.Slice(ps, func(i, j int) bool { return ps[i].Id < ps[j].Id })
	for _, p := range ps {
		owners := append([]string(nil), r.PartitionOwnerIDs(p.Id)...)
		sort.Strings(owners)
		fmt.Fprintf(&b, " p%d{%v ts=%d lock=%v/%d ntok=%d owners=%v}", p.Id, p.State, p.StateTimestamp, p.StateChangeLocked, p.StateChangeLockedTimestamp, len(p.Tokens), owners)
		tr, err := r.GetTokenRangesForPartition(p.Id)
		fmt.Fprintf(&b, "ranges=%d/%v", len(tr), err != nil)
	}
	for _, k := range c13keys {
		pid, err := r.ActivePartitionForKey(k)
		fmt.Fprintf(&b, " key(%d)=%d/%v", k, pid, err != nil)
	}
	for _, size := range []int{0, 1, 3} {
		fmt.Fprintf(&b, " shardsize(%d)=%d", size, r.ShuffleShardSize(size))
	}
	return b.String()
}

type changeRecorder struct {
	mu    sync.Mutex
	calls []string
}

func (c *changeRecorder) OnPartitionRingChanged(oldRing, newRing *ring.PartitionRingDesc) {
	c.mu.Lock()
	c.calls = append(c.calls, fmtPartDesc(oldRing)+" => "+fmtPartDesc(newRing))
	c.mu.Unlock()
}

func runC13Partitions(s *sim.Sim) {
	w := newWorld(s)
	inner, closer := consul.NewInMemoryClient(ring.GetPartitionRingCodec(), w.logger, nil)
	s.OnEnd(func() { _ = closer.Close() })
	w.store = simkv.NewStore(s, inner, clonePartDesc)
	opts := ring.PartitionRingOptions{ShuffleShardCacheSize: sim.Pick(s, "lru-size", 0, 0, 1, 2, 8)}

	cur := ring.NewPartitionRingDesc()
	pastOffsets := []time.Duration{0, time.Second, 30 * time.Second, 5 * time.Minute, 30 * time.Minute, 2 * time.Hour}
	past := func(what string) time.Time {
		return time.Now().Add(-pastOffsets[s.Choose(len(pastOffsets), what)])
	}
	smallTokens := s.Chance(0.5, "small-token-sets")
	nextTok := uint32(100)
	mutate := func() string {
		var present []int32
		for id := range cur.Partitions {
			present = append(present, id)
		}
		sort.Slice(present, func(i, j int) bool { return present[i] < present[j] })
		kind := sim.Pick(s, "mutation", "add", "state", "state", "lock", "owner", "remove-owner", "remove", "same", "add", "state")
		if len(present) == 0 {
			kind = "add"
		}
		switch kind {
		case "add":
			var absent []int32
			for id := int32(0); id < 8; id++ {
				if !cur.HasPartition(id) {
					absent = append(absent, id)
				}
			}
			if len(absent) == 0 {
				return "none"
			}
			id := absent[s.Choose(len(absent), "add-which")]
			st := sim.Pick(s, "new-partition-state", ring.PartitionPending, ring.PartitionActive, ring.PartitionActive, ring.PartitionInactive)
			cur.AddPartition(id, st, past("state-ts"))
			if smallTokens {
				p := cur.Partitions[id]
				p.Tokens = nil
				for n := s.Range(1, 3, "ntok"); n > 0; n-- {
					nextTok += uint32(s.Range(1, 600000000, "tok-gap"))
					p.Tokens = append(p.Tokens, nextTok)
				}
				sort.Slice(p.Tokens, func(i, j int) bool { return p.Tokens[i] < p.Tokens[j] })
				cur.Partitions[id] = p
			}
			return fmt.Sprintf("add p%d", id)
		case "same":
			return "same"
		}
		id := present[s.Choose(len(present), "which")]
		switch kind {
		case "state":
			p := cur.Partitions[id]
			p.State = sim.Pick(s, "state", ring.PartitionPending, ring.PartitionActive, ring.PartitionInactive, ring.PartitionActive, ring.PartitionInactive)
			p.StateTimestamp = past("state-ts").Unix()
			cur.Partitions[id] = p
		case "lock":
			p := cur.Partitions[id]
			cur.UpdatePartitionStateChangeLock(id, !p.StateChangeLocked, time.Now())
		case "owner":
			cur.AddOrUpdateOwner(fmt.Sprintf("o%d", s.Choose(4, "owner")), sim.Pick(s, "owner-state", ring.OwnerActive, ring.OwnerActive, ring.OwnerUnknown), id, past("owner-ts"))
		case "remove-owner":
			cur.RemoveOwner(fmt.Sprintf("o%d", s.Choose(4, "owner")))
		case "remove":
			cur.RemovePartition(id)
			for oid, o := range cur.Owners {
				if o.OwnedPartition == id {
					delete(cur.Owners, oid)
				}
			}
		}
		return fmt.Sprintf("%s p%d", kind, id)
	}
	write := func(what string) {
		if err := w.store.Put(partKey, deepPartDesc(cur)); err != nil {
			panic(err)
		}
		s.Event("write %s -> %s", what, fmtPartDesc(cur))
	}
	for i := s.Range(0, 5, "initial"); i > 0; i-- {
		mutate()
	}
	write("initial")

	var seen []*ring.PartitionRingDesc
	var seenMu sync.Mutex
	w.store.OnWatch = func(actor, key string, v interface{}) {
		d := deepPartDesc(v.(*ring.PartitionRingDesc))
		seenMu.Lock()
		seen = append(seen, d)
		seenMu.Unlock()
		s.Event("watcher is handed version %d: %s", len(seen)-1, fmtPartDesc(d))
	}
	rec := &changeRecorder{}
	watcher := ring.NewPartitionRingWatcherWithOptions("parts", partKey, w.store.NewClient("watcher"), opts, w.logger, nil).WithDelegate(rec)
	seen = append(seen, deepPartDesc(cur))
	if err := watcher.StartAsync(context.Background()); err != nil {
		panic(err)
	}
	s.OnEnd(func() { watcher.StopAsync() })
	s.Wait()
	if watcher.State() != services.Running {
		panic("partition ring watcher did not start: " + watcher.State().String())
	}

	type pq struct {
		kind     string
		id       string
		size     int
		lookback time.Duration
		nowOff   time.Duration
	}
	run := func(q pq, r *ring.PartitionRing) string {
		switch q.kind {
		case "whole":
			return partFP(r, nil)
		case "shard":
			return partFP(r.ShuffleShard(q.id, q.size))
		case "shard-lookback":
			return partFP(r.ShuffleShardWithLookback(q.id, q.size, q.lookback, time.Now().Add(q.nowOff)))
		}
		panic(q.kind)
	}
	var asked []pq
	randomQuery := func() pq {
		if len(asked) > 0 && s.Chance(0.4, "ask-again") {
			q := asked[s.Choose(len(asked), "again-which")]
			q.nowOff = sim.Pick(s, "now-offset", 0, 0, -time.Second, -time.Minute, -10*time.Minute, -time.Hour, time.Second, time.Minute, 10*time.Minute, time.Hour)
			return q
		}
		q := pq{kind: sim.Pick(s, "query", "shard", "shard-lookback", "shard-lookback", "whole")}
		q.id = []string{"t1", "t2", "t3"}[s.Choose(3, "tenant")]
		q.size = sim.Pick(s, "size", 0, 1, 2, 3, 1, 2, 9)
		// periods with a fraction of a second too: window starts then round differently from whole-second arithmetic
		q.lookback = sim.Pick(s, "lookback", time.Minute, 10*time.Minute, 10*time.Minute, time.Hour, time.Minute+500*time.Millisecond, 10*time.Minute+500*time.Millisecond, 20*time.Second+900*time.Millisecond)
		q.nowOff = sim.Pick(s, "now-offset", 0, 0, -time.Second, -time.Minute, -10*time.Minute, -time.Hour, time.Second, time.Minute, 10*time.Minute, time.Hour)
		if q.kind == "shard-lookback" && len(asked) < 8 {
			asked = append(asked, q)
		}
		return q
	}
	hits := 0
	compare := func(q pq) {
		ver := len(seen) - 1
		var got, want string
		w.try("long-lived partition ring", func() { got = run(q, watcher.PartitionRing()) })
		w.try("fresh partition ring", func() {
			fr, err := ring.NewPartitionRing(*deepPartDesc(seen[ver]))
			if err != nil {
				want = "ctor-err(" + err.Error() + ")"
				return
			}
			want = run(q, fr)
		})
		hits++
		s.ProbeN("answers-compared", 1)
		if got != want {
			s.Fail("stale-answer", "partition-"+q.kind, "%+v: the watcher's partition ring and a partition ring built from the latest content (version %d: %s) differ:\n   %s", q, ver, fmtPartDesc(seen[ver]), fpDiff(got, want))
		}
	}

	steps := s.Range(10, 60, "steps")
	updates := 0
	for i := 0; i < steps && s.Budget(); i++ {
		s.Wait()
		switch k := s.Choose(10, "step"); {
		case k < 4:
			n := 1 + s.Choose(2, "mutations")
			var what []string
			for j := 0; j < n; j++ {
				what = append(what, mutate())
			}
			write(strings.Join(what, ", "))
			updates++
		case k < 7:
			if p := w.store.PendingWatchers(); len(p) > 0 {
				before := len(rec.calls)
				prev := seen[len(seen)-1]
				w.store.Deliver(p[0])
				s.Wait()
				if len(seen) > 0 && len(rec.calls) == before+1 {
					want := fmtPartDesc(prev) + " => " + fmtPartDesc(seen[len(seen)-1])
					if rec.calls[before] != want {
						s.Fail("delegate-wrong-rings", "", "OnPartitionRingChanged was called with\n   %s\n expected (previous content handed over => new content)\n   %s", rec.calls[before], want)
					}
				} else if watcher.State() == services.Running {
					s.Fail("delegate-not-called", "", "the watcher was handed a new version but called its delegate %d times", len(rec.calls)-before)
				}
			}
		default:
			s.Advance(sim.Pick(s, "advance", time.Second, 20*time.Second, 61*time.Second, 10*time.Minute, time.Hour))
		}
		if watcher.State() != services.Running {
			// the watcher stops when a descriptor cannot be indexed; a fresh ring must refuse it as well
			_, err := ring.NewPartitionRing(*deepPartDesc(seen[len(seen)-1]))
			if err == nil {
				s.Fail("watcher-stopped", "", "the partition ring watcher stopped (%v) on a descriptor a fresh partition ring accepts: %s", watcher.FailureCase(), fmtPartDesc(seen[len(seen)-1]))
			}
			break
		}
		for n := s.Choose(4, "questions"); n > 0; n-- {
			compare(randomQuery())
		}
	}
	s.Nontrivial = updates >= 3 && len(seen) >= 3 && hits >= 5
	s.Note("partition-watcher updates=%d versions-seen=%d questions=%d lru=%d final=%s", updates, len(seen), hits, opts.ShuffleShardCacheSize, fmtPartDesc(cur))
	s.State(len(seen), fmtPartDesc(cur))
}
