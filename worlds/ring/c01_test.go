package wring

import (
	"strings"
	"time"

	"github.com/grafana/dskit/ring"
	"github.com/grafana/dskit/zzverif/sim"
)

func init() {
	sim.Register("C01", "lookups", 1, runC01)
}

// runC01: ring contents are the versions produced by real lifecyclers (joining, observing, leaving,
// forgotten, stalled so that heartbeats age across the timeout); on every new version and after
// every clock advance a fresh client answers all boundary keys x operations and is compared with the
// reference walk + quorum arithmetic; single-instance registrations / removals are checked for
// locality.
func runC01(s *sim.Sim) {
	c := ringCfg{rf: s.Range(1, 5, "rf"), zoneAware: s.Chance(0.5, "zone-aware")}
	zones := []string{""}
	if c.zoneAware {
		zones = []string{"a", "b", "c", "d", "e"}[:s.Range(1, 5, "zones")]
		if s.Chance(0.3, "some-instances-without-zone") {
			// e.g. mid-migration to zone labels: instances without a zone are not subject to the one-per-zone rule
			zones = append(append([]string{}, zones...), "", "")
		}
	} else if s.Chance(0.5, "zones-anyway") {
		zones = []string{"", "a", "b"}
	}
	observer := func(w *world) {
		ver := w.store.Version(ringKey)
		now := s.Elapsed()
		// locality of single-instance registrations and removals
		for ; w.observedCommits < len(w.store.Commits); w.observedCommits++ {
			cm := w.store.Commits[w.observedCommits]
			in, _ := cm.In.(*ring.Desc)
			out, _ := cm.Out.(*ring.Desc)
			if in == nil || out == nil {
				continue
			}
			w.checkLocality(in, out, c)
		}
		if ver == w.lastObservedVer && now-w.lastObservedAt < time.Second {
			return
		}
		w.lastObservedVer, w.lastObservedAt = ver, now
		d := w.desc().Clone().(*ring.Desc)
		if len(d.Ingesters) == 0 {
			return
		}
		r := w.freshRing(d, c)
		w.checkLookups(r, d, c)
		s.State(fmtTopology(d), c.rf, c.zoneAware)
	}
	w := runLifecycle(s, lifecycleOpts{kinds: []lcKind{kindClassic, kindBasic}, maxActors: 8, zones: zones, faults: true, ghosts: true, observer: observer, maxVirtual: 6 * time.Minute})
	if len(w.actors) >= 3 && w.lookupNontrivial {
		s.Nontrivial = true
	}
	s.Note("rf=%d zoneAware=%v zones=%v actors=%d final=%s", c.rf, c.zoneAware, zones, len(w.actors), fmtDesc(w.desc()))
}

// fmtTopology: the part of a descriptor lookups depend on, without timestamps.
func fmtTopology(d *ring.Desc) string {
	var b []string
	for _, id := range sortedIDs(d) {
		e := d.Ingesters[id]
		b = append(b, id+":"+e.Zone+":"+e.State.String()+":"+strings.Trim(strings.Join(strings.Fields(strings.Trim(strings.Replace(sprintTokens(e.Tokens), " ", ",", -1), "[]")), ","), ","))
	}
	return strings.Join(b, " ")
}

func sprintTokens(t []uint32) string {
	var b []string
	for _, x := range t {
		b = append(b, itoa(uint64(x)))
	}
	return strings.Join(b, " ")
}

func itoa(x uint64) string {
	if x == 0 {
		return "0"
	}
	var buf [20]byte
	i := len(buf)
	for x > 0 {
		i--
		buf[i] = byte('0' + x%10)
		x /= 10
	}
	return string(buf[i:])
}

// checkLocality: registering or removing one instance changes the replica set only of keys for
// which that instance is, or was, a replica.
func (w *world) checkLocality(in, out *ring.Desc, c ringCfg) {
	s := w.s
	var changed string
	n := 0
	for id := range in.Ingesters {
		if _, ok := out.Ingesters[id]; !ok {
			changed, n = id, n+1
		}
	}
	for id := range out.Ingesters {
		if _, ok := in.Ingesters[id]; !ok {
			changed, n = id, n+1
		}
	}
	if n != 1 {
		return
	}
	for id, e := range in.Ingesters {
		if o, ok := out.Ingesters[id]; ok && !e.Equal(o) {
			return // something else changed too
		}
	}
	if _, dup := ownersOf(in); dup {
		return
	}
	if _, dup := ownersOf(out); dup {
		return
	}
	if len(in.Ingesters) == 0 || len(out.Ingesters) == 0 {
		return
	}
	rin := w.freshRing(in.Clone().(*ring.Desc), c)
	rout := w.freshRing(out.Clone().(*ring.Desc), c)
	now := time.Now()
	keys := boundaryKeys(in, 24)
	keys = append(keys, boundaryKeys(out, 24)...)
	for _, k := range keys {
		for _, o := range allOps {
			var a, b ring.ReplicationSet
			var ea, eb error
			w.try("Ring.Get", func() { a, ea = rin.Get(k, o.op, nil, nil, nil); b, eb = rout.Get(k, o.op, nil, nil, nil) })
			same := (ea != nil) == (eb != nil) && strings.Join(idsOf(a), ",") == strings.Join(idsOf(b), ",")
			if same {
				continue
			}
			ra := refLookup(in, k, o, c, w.hbTimeout, now)
			rb := refLookup(out, k, o, c, w.hbTimeout, now)
			involved := false
			for _, id := range append(ra.walked, rb.walked...) {
				if id == changed {
					involved = true
				}
			}
			if !involved {
				s.Fail("lookup-not-local", "", "registering/removing %s changed Get(%d, %s) from %v (err=%v) to %v (err=%v) although %s is in neither walk (%v / %v)", changed, k, o.name, idsOf(a), ea, idsOf(b), eb, changed, ra.walked, rb.walked)
			}
			s.Probe("locality-change-explained")
		}
	}
}
