package wring

import (
	"context"
	"time"

	"github.com/grafana/dskit/ring"
	"github.com/grafana/dskit/services"
	"github.com/grafana/dskit/zzverif/sim"
)

func init() {
	sim.Register("C08", "lifecycle", 3, func(s *sim.Sim) {
		if s.Chance(0.35, "exact-instants") {
			// no 1 ns drift per step: heartbeats, timers and ages fall on exact multiples of 100 ms, often whole seconds
			s.NoTick = true
		}
		w := runLifecycle(s, lifecycleOpts{kinds: []lcKind{kindClassic, kindBasic}, maxActors: 5, zones: []string{"", "a", "b"}, faults: true, ghosts: s.Chance(0.5, "ghosts")})
		if len(w.actors) >= 2 && s.Probes["cas-retried"] > 0 {
			s.Nontrivial = true
		}
		s.Note("actors=%d commits=%d virtual=%v final=%s", len(w.actors), len(w.store.Commits), s.Elapsed(), fmtDesc(w.desc()))
		s.State(len(w.actors), fmtStates(w))
	})
}

func fmtStates(w *world) string {
	out := ""
	d := w.desc()
	for _, id := range sortedIDs(d) {
		out += id + "=" + d.Ingesters[id].State.String() + " "
	}
	return out
}

func init() {
	sim.Register("C08", "restart-entry-forgotten", 1, runRestartEntryForgotten)
}

// runRestartEntryForgotten (directed): an instance that left its entry behind (LEAVING) restarts; while the
// first write of the restart is between its read and its write the operator forgets the entry; before the
// instance joins by itself a client switches it to ACTIVE. It must not report ready while its ring entry holds
// no tokens, and whatever it publishes afterwards must follow the usual rules (commit oracle).
func runRestartEntryForgotten(s *sim.Sim) {
	w := newWorld(s)
	w.faultsOn = true
	v := w.addActor(0, []lcKind{kindClassic}, []string{"", "a"})
	v.heartbeat = 5 * time.Second
	v.joinAfter = 7 * time.Second
	v.observe = 0
	v.unregister = false
	v.tokensPath = ""
	v.autoForget = 0
	v.readinessHealth = s.Chance(0.3, "readiness-ring-health")
	for i, nb := 1, s.Choose(2, "bystanders"); i <= nb; i++ {
		b := w.addActor(i, []lcKind{kindClassic, kindBasic}, []string{"", "a"})
		b.autoForget, b.tokensPath = 0, ""
		if b.heartbeat == 0 {
			b.heartbeat = 5 * time.Second
		}
	}
	for _, a := range w.actors {
		w.build(a)
	}
	s.OnEnd(func() {
		for _, a := range w.actors {
			if a.started && !a.crashed {
				a.svc.StopAsync()
			}
		}
	})
	for _, a := range w.actors {
		w.start(a)
	}
	entry := func() (ring.InstanceDesc, bool) {
		e, ok := w.desc().Ingesters[v.id]
		return e, ok
	}
	active := func() bool { e, ok := entry(); return ok && e.State == ring.ACTIVE && len(e.Tokens) >= v.numTokens }
	if !w.drive("join", active, 3*time.Minute, nil) {
		return
	}
	if s.Chance(0.5, "tokens-claimed-away") {
		// the entry left behind has no tokens any more: the restart tops it up
		v.tokensTaken = true
		_ = w.opKV.CAS(context.Background(), ringKey, func(in interface{}) (interface{}, bool, error) {
			d := ring.GetOrCreateRingDesc(in)
			e := d.Ingesters[v.id]
			e.Tokens = nil
			d.Ingesters[v.id] = e
			return d, true, nil
		})
		s.Wait()
	}
	v.stopAsked = true
	v.svc.StopAsync()
	w.drive("leave", func() bool { st := v.svc.State(); return st == services.Terminated || st == services.Failed }, 3*time.Minute, nil)
	if e, ok := entry(); !ok || e.State != ring.LEAVING {
		return
	}
	w.build(v)
	w.markInherited(v)
	w.start(v)
	w.drive("restart", func() bool { return s.IsParked(v.id + ":f") }, 10*time.Second, nil)
	if !s.IsParked(v.id + ":f") {
		return
	}
	s.Fault("operator-forget")
	v.lastTS = 0
	_ = w.opKV.CAS(context.Background(), ringKey, func(in interface{}) (interface{}, bool, error) {
		d := ring.GetOrCreateRingDesc(in)
		d.RemoveIngester(v.id)
		return d, true, nil
	})
	s.Probe("forgotten-during-restart")
	// the retry registers the instance afresh
	w.drive("re-register", func() bool { _, ok := entry(); return ok }, 5*time.Second, nil)
	e, ok := entry()
	if !ok || len(e.Tokens) > 0 {
		return
	}
	lc := v.classic
	v.requestedStates[ring.ACTIVE] = true
	v.handover = true // legal but unusual: ACTIVE requested from outside before the instance picked tokens
	done := false
	s.Go("client-force-active", func() {
		_ = lc.ChangeState(context.Background(), ring.ACTIVE)
		done = true
	})
	w.drive("force", func() bool { return done }, 5*time.Second, nil)
	e, ok = entry()
	if ok && e.State == ring.ACTIVE && len(e.Tokens) == 0 {
		s.Probe("active-without-tokens-in-the-ring")
		var err error
		w.try("CheckReady", func() { err = lc.CheckReady(context.Background()) })
		if err == nil {
			s.Fail("ready-without-tokens", "", "%s reports ready but its ring entry is %s (restart whose first write lost the race against an operator forgetting the old entry)", v.id, fmtInst(e, ok))
		}
		s.Nontrivial = true
	}
	w.drive("after", func() bool { return false }, 20*time.Second, nil)
	s.Note("restart-entry-forgotten final=%s", fmtDesc(w.desc()))
	s.State("restart-entry-forgotten", fmtStates(w))
}
