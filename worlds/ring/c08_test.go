package wring

import (
	"github.com/grafana/dskit/zzverif/sim"
)

func init() {
	sim.Register("C08", "lifecycle", 1, func(s *sim.Sim) {
		w := runLifecycle(s, lifecycleOpts{kinds: []lcKind{kindClassic, kindBasic}, maxActors: 5, zones: []string{"", "a", "b"}, faults: true, ghosts: s.Chance(0.5, "ghosts")})
		if len(w.actors) >= 2 && s.Probes["cas-retried"] > 0 {
			s.Nontrivial = true
		}
		s.Note("actors=%d commits=%d virtual=%v final=%s", len(w.actors), len(w.store.Commits), s.Elapsed(), fmtDesc(w.desc()))
		s.State(len(w.actors), fmtStates(w))
	})
}

func fmtStates(w *world) string {
	out := ""
	d := w.desc()
	for _, id := range sortedIDs(d) {
		out += id + "=" + d.Ingesters[id].State.String() + " "
	}
	return out
}
