package wring

// RING world: real ring.Lifecycler / ring.BasicLifecycler (+ standard delegates) / ring.Ring clients
// over one shared store (real consul in-memory client) seen through the simkv seam; virtual clock;
// simulated disk for tokens files; harness token generators; an operator.

import (
	"context"
	"fmt"
	"math/rand"
	"sort"
	"strings"
	"time"

	"github.com/go-kit/log"

	"github.com/grafana/dskit/kv/consul"
	"github.com/grafana/dskit/ring"
	"github.com/grafana/dskit/services"
	"github.com/grafana/dskit/zzverif/sim"
	"github.com/grafana/dskit/zzverif/simkv"
	"github.com/grafana/dskit/zzverifrt/simos"
)

const ringKey = "ring"

var tinyAlphabet = []uint32{0, 1, 2, 1 << 31, 0xfffffffd, 0xfffffffe, 0xffffffff, 7, 1000, 0x7fffffff, 0x80000001, 3, 0xfffffffc}

// tokenGen is the injected ring.TokenGenerator: tiny alphabet first, then pseudo-random tokens;
// records every call so the oracle can tell generated tokens from inherited ones.
type tokenGen struct {
	w        *world
	actor    string
	rnd      *rand.Rand
	alphabet []uint32
	calls    []genCall
	gen      map[uint32]bool
	genStep  map[uint32]int // scheduler step at which the token was (last) generated
	// misbehave: return fewer tokens than asked when the alphabet is exhausted (legal "space exhausted")
	exhaust bool
}

type genCall struct {
	requested int
	taken     []uint32
	out       []uint32
}

func (g *tokenGen) GenerateTokens(n int, taken []uint32) ring.Tokens {
	if n <= 0 {
		g.calls = append(g.calls, genCall{requested: n})
		return ring.Tokens{}
	}
	used := map[uint32]bool{}
	for _, t := range taken {
		used[t] = true
	}
	var out []uint32
	for _, t := range g.alphabet {
		if len(out) == n {
			break
		}
		if !used[t] {
			used[t] = true
			out = append(out, t)
		}
	}
	for len(out) < n && !g.exhaust {
		c := g.rnd.Uint32()
		if !used[c] {
			used[c] = true
			out = append(out, c)
		}
	}
	sort.Slice(out, func(i, j int) bool { return out[i] < out[j] })
	g.calls = append(g.calls, genCall{requested: n, taken: append([]uint32(nil), taken...), out: append([]uint32(nil), out...)})
	g.w.s.Event("%s GenerateTokens(%d, taken=%v) -> %v", g.actor, n, taken, out)
	for _, t := range out {
		g.gen[t] = true
		g.genStep[t] = g.w.s.Steps
	}
	return out
}
func (g *tokenGen) CanJoin(map[string]ring.InstanceDesc) error { return nil }
func (g *tokenGen) CanJoinEnabled() bool                       { return false }

type lcKind int

const (
	kindClassic lcKind = iota
	kindBasic
)

// actor is one simulated instance (process) with a lifecycler.
type actor struct {
	id   string
	kind lcKind
	zone string
	addr string

	numTokens       int
	heartbeat       time.Duration
	joinAfter       time.Duration
	observe         time.Duration
	unregister      bool // classic: UnregisterOnShutdown; basic: !KeepInstanceInTheRingOnShutdown
	tokensPath      string
	readinessHealth bool
	registerState   ring.InstanceState // basic: state returned by the register delegate
	autoForget      time.Duration      // basic: 0 = no auto-forget delegate
	slowShutdown    bool               // classic: the hand-over / flush on shutdown is a task the scheduler may delay
	finalSleep      time.Duration

	kv  *simkv.Client
	gen *tokenGen

	classic *ring.Lifecycler
	basic   *ring.BasicLifecycler
	svc     services.Service

	incarnation int
	started     bool
	startedAt   time.Duration
	stopAsked   bool
	crashed     bool

	// oracle bookkeeping
	lastTS          int64
	requestedStates map[ring.InstanceState]bool
	claimFrom       string // set while a ClaimTokensFor call is in flight
	claimedFrom     map[string]bool
	everActive      bool
	everTokens      bool
	published       map[uint32]bool // tokens this instance has published at some point (remembered tokens)
	handover        bool            // took part in a token hand-over (tokens come from another instance)
	disturbedAt     time.Duration
	kvWindowOpen    bool
	transferring    bool
	failedSeen      int // a.kv.Failed at this actor's previous commit
	tokensTaken     bool // another instance claimed this instance's tokens (hand-over) and it has not published tokens since
	readySeen       bool
	inheritedTokens map[uint32]bool
	activeChecked   bool
}

type world struct {
	s      *sim.Sim
	store  *simkv.Store
	actors []*actor
	byID   map[string]*actor
	opKV   *simkv.Client // operator
	logger log.Logger
	fs     *simos.FS

	faultsOn  bool
	hbTimeout time.Duration
	corruptAtStart string
	ghostZones     []string
	ghostIDs       int
	truthfulGhosts bool
	fresh            []*ring.Ring
	lookupNontrivial bool
	rangesNontrivial bool
	rywSeq           int
	observedCommits  int
	lastObservedAt   time.Duration
	lastObservedVer  int
	checked   int // commits already examined by the commit oracle
	forgotten map[string]time.Duration
	// hold: parked tasks the current scenario phase keeps in flight (drive does not release them)
	hold func(name string) bool
}

func cloneDesc(v interface{}) interface{} {
	if v == nil {
		return nil
	}
	d, ok := v.(*ring.Desc)
	if !ok || d == nil {
		return nil
	}
	return d.Clone()
}

func newWorld(s *sim.Sim) *world {
	w := &world{s: s, byID: map[string]*actor{}, logger: log.NewNopLogger(), hbTimeout: time.Minute, forgotten: map[string]time.Duration{}}
	inner, closer := consul.NewInMemoryClient(ring.GetCodec(), w.logger, nil)
	s.OnEnd(func() { _ = closer.Close() })
	w.store = simkv.NewStore(s, inner, cloneDesc)
	w.store.OnCommit = func(c *simkv.Commit) {
		in, _ := c.In.(*ring.Desc)
		out, _ := c.Out.(*ring.Desc)
		if in == nil {
			in = ring.NewDesc()
		}
		if out == nil {
			return
		}
		ie, iok := in.Ingesters[c.Writer]
		oe, ook := out.Ingesters[c.Writer]
		s.Event("  #%d %s: %s -> %s (ring has %d entries)", c.Seq, c.Writer, fmtInst(ie, iok), fmtInst(oe, ook), len(out.Ingesters))
	}
	w.opKV = w.store.NewClient("operator")
	w.fs = simos.New()
	simos.Cur = w.fs
	s.OnEnd(func() {
		for _, r := range w.fresh {
			r.StopAsync()
		}
	})
	return w
}

func (w *world) desc() *ring.Desc {
	v, err := w.store.Inner.Get(context.Background(), ringKey)
	if err != nil || v == nil {
		return ring.NewDesc()
	}
	return v.(*ring.Desc)
}

// addActor draws the configuration of one instance.
func (w *world) addActor(i int, kinds []lcKind, zones []string) *actor {
	s := w.s
	a := &actor{id: fmt.Sprintf("i%d", i), addr: fmt.Sprintf("10.0.0.%d:9095", i+1), requestedStates: map[ring.InstanceState]bool{}, inheritedTokens: map[uint32]bool{}, claimedFrom: map[string]bool{}, published: map[uint32]bool{}}
	a.kind = kinds[s.Choose(len(kinds), "kind")]
	a.zone = zones[s.Choose(len(zones), "zone")]
	a.numTokens = s.Range(1, 4, "num-tokens")
	a.heartbeat = sim.Pick(s, "heartbeat", 5*time.Second, 15*time.Second, 0)
	if a.kind == kindClassic && a.heartbeat == 0 {
		a.heartbeat = 5 * time.Second // the classic lifecycler rejects a zero heartbeat period
	}
	a.joinAfter = sim.Pick(s, "join-after", 0, 1300*time.Millisecond, 7*time.Second)
	a.observe = sim.Pick(s, "observe", 0, 2900*time.Millisecond)
	a.unregister = s.Chance(0.6, "unregister-on-shutdown")
	if s.Chance(0.3, "tokens-file") {
		a.tokensPath = "/tokens/" + a.id
	}
	a.readinessHealth = s.Chance(0.5, "readiness-ring-health")
	a.registerState = sim.Pick(s, "register-state", ring.ACTIVE, ring.JOINING, ring.PENDING)
	if s.Chance(0.3, "auto-forget") {
		a.autoForget = 2 * w.hbTimeout
	}
	a.slowShutdown = s.Chance(0.3, "slow-shutdown")
	a.finalSleep = sim.Pick(s, "final-sleep", 0, 0, 12*time.Second)
	a.kv = w.store.NewClient(a.id)
	a.gen = &tokenGen{w: w, actor: a.id, rnd: rand.New(rand.NewSource(int64(s.Seed) + int64(i)*7919)), gen: map[uint32]bool{}, genStep: map[uint32]int{}}
	nAlpha := s.Range(0, len(tinyAlphabet), "alphabet")
	for _, j := range s.Perm(len(tinyAlphabet), "alphabet-order")[:nAlpha] {
		a.gen.alphabet = append(a.gen.alphabet, tinyAlphabet[j])
	}
	w.actors = append(w.actors, a)
	w.byID[a.id] = a
	return a
}

// build creates a fresh lifecycler object for the actor (a new process incarnation).
func (w *world) build(a *actor) {
	a.incarnation++
	a.kv = w.store.NewClient(a.id)
	a.stopAsked, a.crashed, a.started = false, false, false
	a.readySeen = false
	a.activeChecked = false
	a.everActive, a.everTokens, a.handover = false, false, false
	a.failedSeen = 0
	switch a.kind {
	case kindClassic:
		var cfg ring.LifecyclerConfig
		cfg.RingConfig.KVStore.Mock = a.kv
		cfg.RingConfig.HeartbeatTimeout = w.hbTimeout
		cfg.RingConfig.ReplicationFactor = 3
		cfg.NumTokens = a.numTokens
		cfg.HeartbeatPeriod = a.heartbeat
		cfg.HeartbeatTimeout = w.hbTimeout
		cfg.ObservePeriod = a.observe
		cfg.JoinAfter = a.joinAfter
		cfg.MinReadyDuration = 0
		cfg.FinalSleep = a.finalSleep
		cfg.TokensFilePath = a.tokensPath
		cfg.Zone = a.zone
		cfg.UnregisterOnShutdown = a.unregister
		cfg.ReadinessCheckRingHealth = a.readinessHealth
		cfg.Addr = strings.Split(a.addr, ":")[0]
		cfg.Port = 9095
		cfg.ID = a.id
		cfg.RingTokenGenerator = a.gen
		var ft ring.FlushTransferer
		if a.slowShutdown {
			ft = &slowTransferer{w: w, a: a}
		}
		l, err := ring.NewLifecycler(cfg, ft, "sim", ringKey, false, w.logger, nil)
		if err != nil {
			panic(err)
		}
		a.classic, a.svc = l, l
	case kindBasic:
		cfg := ring.BasicLifecyclerConfig{
			ID: a.id, Addr: a.addr, Zone: a.zone,
			HeartbeatPeriod: a.heartbeat, HeartbeatTimeout: w.hbTimeout,
			TokensObservePeriod: a.observe, NumTokens: a.numTokens,
			KeepInstanceInTheRingOnShutdown: !a.unregister,
			RingTokenGenerator:              a.gen,
		}
		var d ring.BasicLifecyclerDelegate = ring.NewInstanceRegisterDelegate(a.registerState, a.numTokens)
		d = ring.NewLeaveOnStoppingDelegate(d, w.logger)
		d = ring.NewTokensPersistencyDelegate(a.tokensPath, ring.ACTIVE, d, w.logger)
		if a.autoForget > 0 {
			d = ring.NewAutoForgetDelegate(a.autoForget, d, w.logger)
		}
		l, err := ring.NewBasicLifecycler(cfg, "sim", ringKey, a.kv, d, w.logger, nil)
		if err != nil {
			panic(err)
		}
		a.basic, a.svc = l, l
	}
}

// slowTransferer makes the shutdown work of a classic lifecycler a task of its own: the scheduler
// decides how long it takes, and the instance must keep heartbeating meanwhile.
type slowTransferer struct {
	w *world
	a *actor
}

func (t *slowTransferer) Flush() {}
func (t *slowTransferer) TransferOut(context.Context) error {
	t.a.transferring = true
	t.w.s.Park("transfer-" + t.a.id)
	t.a.transferring = false
	return ring.ErrTransferDisabled
}

func (a *actor) state() ring.InstanceState {
	if a.kind == kindClassic {
		return a.classic.GetState()
	}
	return a.basic.GetState()
}

func (w *world) start(a *actor) {
	a.started, a.startedAt = true, w.s.Elapsed()
	a.disturbedAt = w.s.Elapsed()
	if err := a.svc.StartAsync(context.Background()); err != nil {
		panic(err)
	}
}

// ---------------------------------------------------------------------------------------------
// commit oracle (C08): examines every committed write once

var classicEdges = map[[2]ring.InstanceState]bool{
	{ring.PENDING, ring.JOINING}: true,
	{ring.JOINING, ring.ACTIVE}:  true,
	{ring.PENDING, ring.ACTIVE}:  true,
	{ring.ACTIVE, ring.LEAVING}:  true,
	{ring.JOINING, ring.PENDING}: true, // restart of an instance that died while joining / failed hand-over
	{ring.LEAVING, ring.ACTIVE}:  true, // restart of an instance that died while leaving
}

// classicReachable: under store faults a published state may be skipped because its write was
// rejected; the lifecycler's own state still followed the edges.
func classicReachable(from, to ring.InstanceState) bool {
	seen := map[ring.InstanceState]bool{from: true}
	queue := []ring.InstanceState{from}
	for len(queue) > 0 {
		x := queue[0]
		queue = queue[1:]
		for e := range classicEdges {
			if e[0] == x && !seen[e[1]] {
				seen[e[1]] = true
				queue = append(queue, e[1])
			}
		}
	}
	return seen[to] && from != to
}

func tokensSortedDistinct(t []uint32) bool {
	for i := 1; i < len(t); i++ {
		if t[i-1] >= t[i] {
			return false
		}
	}
	return true
}

func (w *world) checkCommits() {
	s := w.s
	for ; w.checked < len(w.store.Commits); w.checked++ {
		c := w.store.Commits[w.checked]
		in, _ := c.In.(*ring.Desc)
		out, _ := c.Out.(*ring.Desc)
		if in == nil {
			in = ring.NewDesc()
		}
		if out == nil {
			continue
		}
		a := w.byID[c.Writer]
		if a == nil {
			continue // operator writes are not constrained
		}
		// 1. only its own entry
		ids := map[string]bool{}
		for id := range in.Ingesters {
			ids[id] = true
		}
		for id := range out.Ingesters {
			ids[id] = true
		}
		for id := range ids {
			if id == a.id {
				continue
			}
			ie, iok := in.Ingesters[id]
			oe, ook := out.Ingesters[id]
			switch {
			case iok && ook && ie.Equal(oe):
			case iok && !ook && a.autoForget > 0 && ageAt(c.At, ie) > a.autoForget:
				s.Probe("auto-forget-removed-entry")
			case iok && ook && a.claimedFrom[id] && len(oe.Tokens) == 0 && sameExceptTokens(ie, oe):
				s.Probe("token-hand-over")
				if v := w.byID[id]; v != nil {
					v.tokensTaken = true
				}
			default:
				s.Fail("foreign-entry-modified", "", "commit #%d by %s changed the entry of %s: before=%s after=%s", c.Seq, a.id, id, fmtInst(ie, iok), fmtInst(oe, ook))
			}
		}
		ie, iok := in.Ingesters[a.id]
		oe, ook := out.Ingesters[a.id]
		if !ook {
			if iok {
				s.Probe("own-entry-removed")
			}
			continue
		}
		// 2. state machine
		if iok && ie.State != oe.State {
			switch a.kind {
			case kindClassic:
				// a state whose write the store rejected (injected fault, or retries exhausted under contention) is
				// skipped in what gets published; the lifecycler's own state still followed the edges
				rejected := w.faultsOn || a.kv.Failed > a.failedSeen
				if !classicEdges[[2]ring.InstanceState{ie.State, oe.State}] && !(rejected && classicReachable(ie.State, oe.State)) {
					s.Fail("illegal-state-edge", "", "commit #%d: %s published %v -> %v", c.Seq, a.id, ie.State, oe.State)
				}
			case kindBasic:
				if oe.State != a.registerState && !a.requestedStates[oe.State] && !(oe.State == ring.LEAVING && a.stopAsked) && !(a.tokensPath != "" && oe.State == ring.ACTIVE) {
					s.Fail("illegal-state-edge", "", "commit #%d: basic lifecycler %s published %v -> %v which nobody requested", c.Seq, a.id, ie.State, oe.State)
				}
			}
		}
		a.failedSeen = a.kv.Failed
		// 3. heartbeat timestamp never goes backwards
		if iok && oe.Timestamp < ie.Timestamp {
			s.Fail("timestamp-backwards", "", "commit #%d: %s heartbeat timestamp %d -> %d", c.Seq, a.id, ie.Timestamp, oe.Timestamp)
		}
		if oe.Timestamp < a.lastTS {
			s.Fail("timestamp-backwards", "", "commit #%d: %s wrote heartbeat timestamp %d after having written %d", c.Seq, a.id, oe.Timestamp, a.lastTS)
		}
		a.lastTS = oe.Timestamp
		// 4. registration time set once, then kept
		if iok && ie.RegisteredTimestamp != oe.RegisteredTimestamp {
			s.Fail("registered-timestamp-changed", "", "commit #%d: %s changed its registration time %d -> %d while its entry existed", c.Seq, a.id, ie.RegisteredTimestamp, oe.RegisteredTimestamp)
		}
		if !iok {
			s.Probe("entry-created")
		}
		// 5. tokens
		if !tokensSortedDistinct(oe.Tokens) {
			s.Fail("tokens-not-sorted-distinct", "", "commit #%d: %s published tokens %v", c.Seq, a.id, oe.Tokens)
		}
		prev := map[uint32]bool{}
		if iok {
			for _, t := range ie.Tokens {
				prev[t] = true
			}
		}
		others := map[uint32]string{}
		for id, e := range in.Ingesters {
			if id != a.id {
				for _, t := range e.Tokens {
					others[t] = id
				}
			}
		}
		for _, t := range oe.Tokens {
			if prev[t] {
				continue
			}
			// newly published token
			// "none of which was visible in the ring as another instance's token when chosen": the check applies
			// to tokens chosen by the very function call that produced this write
			if a.gen.gen[t] && a.gen.genStep[t] == c.FStep && !a.inheritedTokens[t] && !a.published[t] {
				if owner, taken := others[t]; taken && !a.claimedFrom[owner] {
					s.Fail("generated-token-already-taken", "", "commit #%d: %s published the generated token %d which was visible as a token of %s", c.Seq, a.id, t, owner)
				}
			}
		}
		for _, t := range oe.Tokens {
			a.published[t] = true
		}
		if oe.State == ring.ACTIVE {
			a.everActive = true
		}
		if len(oe.Tokens) > 0 {
			a.everTokens = true
			a.tokensTaken = false
		}
		if oe.State == ring.ACTIVE && !a.activeChecked && (!iok || ie.State != ring.ACTIVE) {
			a.activeChecked = true
			allGenerated := true
			for _, t := range oe.Tokens {
				if !a.gen.gen[t] || a.inheritedTokens[t] {
					allGenerated = false
				}
			}
			if a.handover || a.tokensTaken {
				allGenerated = false
			}
			if allGenerated && len(oe.Tokens) != a.numTokens && !a.gen.exhaust {
				s.Fail("token-count", "", "commit #%d: %s became ACTIVE after a fresh join with %d tokens %v, configured %d", c.Seq, a.id, len(oe.Tokens), oe.Tokens, a.numTokens)
			}
			if len(oe.Tokens) == 0 && a.numTokens > 0 && !a.gen.exhaust && !a.handover && !a.tokensTaken {
				s.Fail("active-without-tokens", "", "commit #%d: %s became ACTIVE without tokens", c.Seq, a.id)
			}
			s.Probe("became-active")
		}
	}
}

func ageAt(at time.Duration, e ring.InstanceDesc) time.Duration {
	now := epoch().Add(at)
	return now.Sub(time.Unix(e.Timestamp, 0))
}

func epoch() time.Time { return time.Date(2000, 1, 1, 0, 0, 0, 0, time.UTC) }

func sameExceptTokens(a, b ring.InstanceDesc) bool {
	a.Tokens, b.Tokens = nil, nil
	return a.Equal(b)
}

func fmtInst(e ring.InstanceDesc, ok bool) string {
	if !ok {
		return "<absent>"
	}
	return fmt.Sprintf("{%v ts=%d reg=%d tokens=%v zone=%s ro=%v/%d}", e.State, e.Timestamp, e.RegisteredTimestamp, e.Tokens, e.Zone, e.ReadOnly, e.ReadOnlyUpdatedTimestamp)
}

func fmtDesc(d *ring.Desc) string {
	var ids []string
	for id := range d.Ingesters {
		ids = append(ids, id)
	}
	sort.Strings(ids)
	var b []string
	for _, id := range ids {
		b = append(b, id+"="+fmtInst(d.Ingesters[id], true))
	}
	return strings.Join(b, " ")
}

// isInFlight: the task is a CAS between its read and its conditional write.
func isInFlight(task string) bool {
	return strings.HasSuffix(task, ":f") || strings.Contains(task, ":f#")
}
