package wring

import (
	"fmt"
	"sort"
	"time"

	"github.com/grafana/dskit/ring"
	"github.com/grafana/dskit/zzverif/sim"
)

func init() {
	sim.Register("C14", "token-ranges", 1, runC14)
}

// runC14: on every ring version reached by the simulated lifecyclers (tiny token alphabet incl. 0, 1,
// 2, 2^32-3..2^32-1) whose zone count fits, a fresh zone-aware client with RF = number of zones
// reports the token ranges of every instance; they must coincide with key ownership and tile the
// key space per zone.
func runC14(s *sim.Sim) {
	zones := []string{"a", "b", "c", "d"}[:s.Range(1, 4, "zones")]
	lastVer := -1
	observer := func(w *world) {
		ver := w.store.Version(ringKey)
		if ver == lastVer {
			return
		}
		lastVer = ver
		d := w.desc().Clone().(*ring.Desc)
		if _, dup := ownersOf(d); dup || len(d.Ingesters) == 0 {
			return
		}
		w.checkTokenRanges(d)
	}
	w := runLifecycle(s, lifecycleOpts{kinds: []lcKind{kindClassic, kindBasic}, maxActors: 6, zones: zones, faults: s.Chance(0.3, "with-faults"), ghosts: true, observer: observer, maxVirtual: 3 * time.Minute})
	if w.rangesNontrivial {
		s.Nontrivial = true
	}
	s.Note("zones=%v actors=%d final=%s", zones, len(w.actors), fmtDesc(w.desc()))
}

// zoneOwner: the instance of the zone owning the first token strictly greater than the key.
func zoneOwner(d *ring.Desc, zone string, key uint32) string {
	var owners []tokOwner
	for id, e := range d.Ingesters {
		if e.Zone != zone {
			continue
		}
		for _, t := range e.Tokens {
			owners = append(owners, tokOwner{t, id})
		}
	}
	if len(owners) == 0 {
		return ""
	}
	sort.Slice(owners, func(i, j int) bool { return owners[i].token < owners[j].token })
	for _, o := range owners {
		if o.token > key {
			return o.id
		}
	}
	return owners[0].id
}

func (w *world) checkTokenRanges(d *ring.Desc) {
	s := w.s
	// the statement's precondition: a zone-aware ring with as many zones as replicas; every instance
	// carries a zone and every zone has tokens
	zonesWithTokens := map[string]bool{}
	allZones := map[string]bool{}
	for _, e := range d.Ingesters {
		if e.Zone == "" {
			return
		}
		allZones[e.Zone] = true
		if len(e.Tokens) > 0 {
			zonesWithTokens[e.Zone] = true
		}
	}
	nz := len(allZones)
	if nz == 0 || nz > 5 || len(zonesWithTokens) != nz {
		return
	}
	c := ringCfg{rf: nz, zoneAware: true}
	r := w.freshRing(d, c)
	w.checkTokenRangesOn(r, d, nz, "ring")
	// the same ring with one instance having registered its tokens in another order (older versions did):
	// what a client reports must not depend on the order in which an instance lists its tokens
	if ids := sortedIDs(d); len(ids) > 0 && !s.Failed() {
		id := ids[s.Choose(len(ids), "unsorted-instance")]
		if e := d.Ingesters[id]; len(e.Tokens) >= 2 {
			d2 := d.Clone().(*ring.Desc)
			toks := append([]uint32(nil), e.Tokens...)
			for i, j := 0, len(toks)-1; i < j; i, j = i+1, j-1 {
				toks[i], toks[j] = toks[j], toks[i]
			}
			e.Tokens = toks
			d2.Ingesters[id] = e
			s.Probe("ranges-with-unsorted-registered-tokens")
			w.checkTokenRangesOn(w.freshRing(d2, c), d2, nz, "ring with unsorted tokens of "+id)
		}
	}
	// sub-rings (shuffle shards) are rings: their reported ranges and their lookups must agree as well
	if !s.Failed() {
		size := nz * s.Range(1, 2, "shard-per-zone")
		var sub ring.ReadRing
		w.try("ShuffleShard", func() { sub = r.ShuffleShard("tenant-"+string(rune('a'+s.Choose(4, "tenant"))), size) })
		if sub != nil {
			dsub := d.Clone().(*ring.Desc)
			for id := range d.Ingesters {
				if !sub.HasInstance(id) {
					delete(dsub.Ingesters, id)
				}
			}
			zs := map[string]bool{}
			for _, e := range dsub.Ingesters {
				if len(e.Tokens) > 0 {
					zs[e.Zone] = true
				}
			}
			if len(zs) == nz && len(dsub.Ingesters) < len(d.Ingesters) {
				s.Probe("ranges-on-subring")
				w.checkTokenRangesOn(sub, dsub, nz, "shuffle shard of size "+fmt.Sprint(size))
			}
		}
	}
}

// checkTokenRangesOn compares what r (a client over exactly the instances of d) reports with ownership computed from d.
func (w *world) checkTokenRangesOn(r ring.ReadRing, d *ring.Desc, nz int, what string) {
	s := w.s
	zonesWithTokens := map[string]bool{}
	for _, e := range d.Ingesters {
		if len(e.Tokens) > 0 {
			zonesWithTokens[e.Zone] = true
		}
	}
	keys := boundaryKeys(d, 64)
	type span struct{ lo, hi uint64 }
	perZone := map[string][]span{}
	for _, id := range sortedIDs(d) {
		e := d.Ingesters[id]
		if e.Zone == "" || !zonesWithTokens[e.Zone] {
			continue
		}
		var tr ring.TokenRanges
		var err error
		w.try("GetTokenRangesForInstance", func() { tr, err = r.GetTokenRangesForInstance(id) })
		if err != nil {
			s.Fail("token-ranges-error", "", "%s: GetTokenRangesForInstance(%s) on a zone-aware ring with RF = zones = %d: %v; ring: %s", what, id, nz, err, fmtDesc(d))
			continue
		}
		if len(tr)%2 != 0 || !sort.SliceIsSorted(tr, func(i, j int) bool { return tr[i] < tr[j] }) {
			s.Fail("token-ranges-malformed", "", "ranges of %s: %v", id, tr)
		}
		for i := 0; i+1 < len(tr); i += 2 {
			perZone[e.Zone] = append(perZone[e.Zone], span{uint64(tr[i]), uint64(tr[i+1])})
		}
		for _, k := range keys {
			var inc bool
			w.try("IncludesKey", func() { inc = tr.IncludesKey(k) })
			owner := zoneOwner(d, e.Zone, k)
			if inc != (owner == id) {
				tag, key := "token-ranges-vs-ownership", ""
				s.Fail(tag, key, "%s: instance %s (zone %s, tokens %v): ranges %v include key %d = %v, but the lookup assigns key %d to %s in that zone; ring: %s", what, id, e.Zone, e.Tokens, tr, k, inc, k, owner, fmtDesc(d))
			}
			s.ProbeN("range-membership-compared", 1)
		}
		for _, t := range e.Tokens {
			if t == 0 || t == 1 || t == 0xffffffff {
				w.rangesNontrivial = true
			}
		}
	}
	// tiling per zone: closed ranges, no overlap, no gap, from 0 to 2^32-1
	for z, spans := range perZone {
		sort.Slice(spans, func(i, j int) bool { return spans[i].lo < spans[j].lo })
		next := uint64(0)
		for _, sp := range spans {
			if sp.lo != next {
				s.Fail("token-ranges-tiling", "", "zone %s: ranges %v leave a gap or overlap at %d (expected the next range to start at %d); ring: %s", z, spans, sp.lo, next, fmtDesc(d))
				break
			}
			next = sp.hi + 1
		}
		if next != 1<<32 && !s.Failed() {
			s.Fail("token-ranges-tiling", "", "zone %s: ranges %v end at %d, not at 2^32-1; ring: %s", z, spans, next-1, fmtDesc(d))
		}
	}
	// cross-check with the real lookup on a fully healthy ACTIVE ring
	allActive := true
	now := time.Now()
	for _, e := range d.Ingesters {
		if e.State != ring.ACTIVE || now.Sub(time.Unix(e.Timestamp, 0)) > w.hbTimeout || len(e.Tokens) == 0 {
			allActive = false
		}
	}
	if allActive {
		for _, k := range keys {
			var rs ring.ReplicationSet
			var err error
			w.try("Ring.Get", func() { rs, err = r.Get(k, ring.WriteNoExtend, nil, nil, nil) })
			if err != nil {
				continue
			}
			for _, inst := range rs.Instances {
				if zoneOwner(d, inst.Zone, k) != inst.Id {
					s.Fail("lookup-vs-zone-owner", "", "%s: Get(%d) returned %s for zone %s, the zone's owner of that key is %s; ring: %s", what, k, inst.Id, inst.Zone, zoneOwner(d, inst.Zone, k), fmtDesc(d))
				}
			}
		}
		s.Probe("cross-checked-with-lookup")
	}
}
