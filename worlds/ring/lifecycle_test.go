package wring

import (
	"context"
	"fmt"
	"strings"
	"time"

	"github.com/grafana/dskit/ring"
	"github.com/grafana/dskit/services"
	"github.com/grafana/dskit/zzverif/sim"
)

// lifecycleOpts tunes the shared lifecycler-driven history generator.
type lifecycleOpts struct {
	kinds      []lcKind
	maxActors  int
	minActors  int
	zones      []string
	faults     bool
	observer   func(w *world) // called at every quiescent point after the commit oracle
	maxVirtual time.Duration
	noOperator bool
	truthfulGhosts bool // operator-written entries carry true registration / read-only change times and never change tokens
	longAdvances   bool // include multi-minute clock advances
	noStalls       bool // never advance the clock while a task is parked (writes take no virtual time)
	ghostBudget int // number of ghost operations per run (default 10)
	ghostIDs    int // number of distinct ghost instances (default 4)
	ghosts     bool // the operator also writes entries of instances that are not simulated (any state, incl. LEFT with tokens; chosen heartbeat ages)
}

type clientOp struct {
	name string
	done bool
	err  error
}

// runLifecycle drives 1..n lifecyclers through start / external state changes / read-only toggles /
// token claims / stop (with and without unregistering) / restarts, under the scheduler's control,
// with KV faults, stalls and clock advances, checking the commit oracle (C08) after every step.
func runLifecycle(s *sim.Sim, o lifecycleOpts) *world {
	w := newWorld(s)
	for _, z := range o.zones {
		w.ghostZones = append(w.ghostZones, z)
	}
	lo := 1
	if o.minActors > 0 {
		lo = o.minActors
	}
	n := s.Range(lo, o.maxActors, "actors")
	for i := 0; i < n; i++ {
		a := w.addActor(i, o.kinds, o.zones)
		if a.tokensPath != "" && s.Chance(0.4, "preexisting-tokens-file") {
			// a tokens file left by an earlier run of this instance
			k := s.Range(1, 4, "file-tokens")
			toks := ring.Tokens{}
			for j := 0; j < k; j++ {
				toks = append(toks, uint32(1_000_000*(i+1)+j*17))
			}
			b, _ := toks.Marshal()
			w.fs.Put(a.tokensPath, b)
			for _, t := range toks {
				a.inheritedTokens[t] = true
			}
		}
		w.build(a)
	}
	faultsOn := o.faults && s.Chance(0.6, "faults-enabled")
	w.faultsOn = faultsOn
	budget := map[string]int{"wipe": 2, "forget": 2, "kv-errors": 4, "restart": 5, "stop": 8, "ghost": 10}
	if o.ghostBudget > 0 {
		budget["ghost"] = o.ghostBudget
	}
	w.truthfulGhosts = o.truthfulGhosts
	w.ghostIDs = 4
	if o.ghostIDs > 0 {
		w.ghostIDs = o.ghostIDs
	}
	spend := func(k string) bool {
		if budget[k] <= 0 {
			return false
		}
		budget[k]--
		return true
	}
	maxVirtual := o.maxVirtual
	if maxVirtual == 0 {
		maxVirtual = 5 * time.Minute
	}
	opSeq := 0
	inflight := map[string]*clientOp{}
	failWindow := map[string]int{} // actor -> remaining steps of the KV error window

	s.OnEnd(func() {
		for _, a := range w.actors {
			if a.started && !a.crashed {
				a.svc.StopAsync()
			}
		}
	})

	quiescent := func() {
		w.checkCommits()
		w.checkReadiness()
		w.checkHeartbeats()
		if o.observer != nil {
			o.observer(w)
		}
	}

	for iter := 0; iter < 4000 && s.Budget() && s.Elapsed() < maxVirtual; iter++ {
		s.Wait()
		quiescent()
		names := s.Parked()
		type alt struct {
			name string
			w    int
			run  func()
		}
		var alts []alt
		for _, nm := range names {
			nm := nm
			alts = append(alts, alt{nm, 6, func() {
				if strings.HasSuffix(nm, ":cas") || strings.HasSuffix(nm, ":f") {
					id := strings.SplitN(nm, ":", 2)[0]
					if a := w.byID[id]; a != nil && faultsOn {
						if s.Chance(0.03, "force-retry") {
							a.kv.ForceRetry = 1
						}
						if s.Chance(0.02, "ack-lost") {
							a.kv.AckLostNext = true
						}
					}
				}
				s.Release(nm)
			}})
		}
		for _, nm := range w.store.PendingWatchers() {
			nm := nm
			alts = append(alts, alt{nm, 3, func() { s.Do(nm, func() { w.store.Deliver(nm) }) }})
		}
		// --- per-actor operations
		for _, a := range w.actors {
			a := a
			switch {
			case !a.started && !a.crashed:
				alts = append(alts, alt{"start-" + a.id, 5, func() {
					w.markInherited(a)
					s.Do("start-"+a.id, func() { w.start(a) })
				}})
			case a.started && !a.stopAsked && !a.crashed:
				st := a.svc.State()
				if (st == services.Running || st == services.Starting) && budget["stop"] > 0 {
					alts = append(alts, alt{"stop-" + a.id, 1, func() {
						spend("stop")
						a.stopAsked = true
						a.disturbedAt = s.Elapsed() // the shutdown path starts a new heartbeat ticker
						s.Do("stop-"+a.id, func() { a.svc.StopAsync() })
					}})
				}
				if st == services.Running && len(inflight) < 3 {
					alts = append(alts, alt{"op-" + a.id, 2, func() { w.clientOperation(a, &opSeq, inflight) }})
				}
			case a.started && a.stopAsked && !a.crashed:
				if st := a.svc.State(); (st == services.Terminated || st == services.Failed) && budget["restart"] > 0 {
					alts = append(alts, alt{"restart-" + a.id, 2, func() {
						spend("restart")
						s.Probe("instance-restarted")
						w.build(a)
						w.markInherited(a)
						s.Do("restart-"+a.id, func() { w.start(a) })
					}})
				}
			}
			if faultsOn && a.started && !a.crashed {
				if failWindow[a.id] == 0 && budget["kv-errors"] > 0 {
					alts = append(alts, alt{"kv-errors-" + a.id, 1, func() {
						spend("kv-errors")
						failWindow[a.id] = s.Range(1, 12, "error-window")
						a.kv.FailCAS = true
						a.kvWindowOpen = true
						a.kv.FailGet = s.Chance(0.5, "fail-get-too")
						a.disturbedAt = s.Elapsed() + time.Hour // until the window closes
						s.Do("kv-errors-on-"+a.id, func() {})
					}})
				}
			}
		}
		inFlightCAS := false
		for _, nm := range names {
			if isInFlight(nm) {
				inFlightCAS = true
			}
		}
		// the in-memory consul store accepts a CAS with a stale index on a key that was deleted in the
		// meantime (a real consul does not): a wipe while a CAS is between its read and its write would
		// resurrect the whole old ring, so the wipe fault is only injected when no CAS is in flight
		if faultsOn && !o.noOperator && budget["wipe"] > 0 && !inFlightCAS {
			alts = append(alts, alt{"wipe", 1, func() {
				spend("wipe")
				s.Fault("ring-wiped")
				for _, a := range w.actors {
					a.disturbedAt = s.Elapsed()
					a.lastTS = 0 // the entry that comes back is a new one
				}
				s.Do("wipe", func() { _ = w.store.Wipe(ringKey) })
			}})
		}
		if faultsOn && !o.noOperator && budget["forget"] > 0 {
			alts = append(alts, alt{"forget", 1, func() {
				spend("forget")
				d := w.desc()
				var ids []string
				for id := range d.Ingesters {
					ids = append(ids, id)
				}
				if len(ids) == 0 {
					return
				}
				sortStrings(ids)
				id := ids[s.Choose(len(ids), "forget-which")]
				s.Fault("operator-forget")
				s.Go("operator-forget", func() {
					_ = w.opKV.CAS(context.Background(), ringKey, func(in interface{}) (interface{}, bool, error) {
						d := ring.GetOrCreateRingDesc(in)
						d.RemoveIngester(id)
						return d, true, nil
					})
				})
				if a := w.byID[id]; a != nil {
					a.disturbedAt = s.Elapsed()
					a.lastTS = 0
				}
			}})
		}
		if o.ghosts && budget["ghost"] > 0 {
			gw := 2
			if o.ghostBudget > 10 {
				gw = 8
			}
			alts = append(alts, alt{"ghost", gw, func() {
				spend("ghost")
				w.ghostOperation()
			}})
		}
		// --- time
		advW := 6
		if len(names) > 0 {
			advW = 1 // advancing while tasks are parked stalls them
		}
		if o.noStalls && len(names) > 0 {
			advW = 0
		}
		alts = append(alts, alt{"advance", advW, func() {
			d := sim.Pick(s, "advance", time.Second, 300*time.Millisecond, 1300*time.Millisecond, 2900*time.Millisecond, 5*time.Second, 15*time.Second, 59*time.Second, 61*time.Second, 2*time.Minute+time.Second, -1, -2)
			if o.longAdvances && s.Chance(0.3, "long-advance") {
				d = sim.Pick(s, "long", 45*time.Second, 3*time.Minute, 9*time.Minute)
			}
			if d < 0 {
				// land exactly on a whole second (heartbeat timestamps are whole seconds: ages equal to the
				// timeout, one second less, one second more)
				d = time.Second - (s.Elapsed()+1)%time.Second + time.Duration(-d-1)*59*time.Second
				s.Probe("clock-aligned-to-second")
			}
			if len(s.Parked()) > 0 {
				s.Fault("stall")
				for _, nm := range s.Parked() {
					if a := w.byID[strings.SplitN(nm, ":", 2)[0]]; a != nil && strings.Contains(nm, ":") {
						a.disturbedAt = s.Elapsed() + d
					}
				}
			}
			s.Advance(d)
		}})
		total := 0
		for _, a := range alts {
			total += a.w
		}
		if total == 0 {
			break
		}
		v := s.Choose(total, "step")
		for _, a := range alts {
			if v < a.w {
				a.run()
				break
			}
			v -= a.w
		}
		// close KV error windows
		for id, left := range failWindow {
			if left > 0 {
				failWindow[id] = left - 1
				if left == 1 {
					a := w.byID[id]
					a.kv.FailCAS, a.kv.FailGet = false, false
					a.kvWindowOpen = false
					a.disturbedAt = s.Elapsed()
					delete(failWindow, id)
				}
			}
		}
	}
	s.Wait()
	quiescent()
	return w
}

func sortStrings(a []string) {
	for i := 1; i < len(a); i++ {
		for j := i; j > 0 && a[j-1] > a[j]; j-- {
			a[j-1], a[j] = a[j], a[j-1]
		}
	}
}

// markInherited records the tokens a (re)starting instance can legitimately inherit: those in its
// tokens file and those in its ring entry.
func (w *world) markInherited(a *actor) {
	if a.tokensPath != "" {
		if b, ok := w.fs.Snapshot(a.tokensPath); ok {
			var t ring.Tokens
			if err := t.Unmarshal(b); err == nil {
				for _, x := range t {
					a.inheritedTokens[x] = true
				}
			}
		}
	}
	if e, ok := w.desc().Ingesters[a.id]; ok {
		for _, x := range e.Tokens {
			a.inheritedTokens[x] = true
		}
		if (e.State == ring.ACTIVE || e.State == ring.LEAVING) && len(e.Tokens) < a.numTokens {
			// it inherits an entry that is ACTIVE with fewer tokens than configured (tokens handed over,
			// externally forced ACTIVE): not a fresh join
			a.handover = true
		}
	}
}

// clientOperation starts one external operation on a running lifecycler as a client task.
func (w *world) clientOperation(a *actor, seq *int, inflight map[string]*clientOp) {
	s := w.s
	*seq++
	name := fmt.Sprintf("client%02d-%s", *seq, a.id)
	op := &clientOp{name: name}
	inflight[name] = op
	ctx := context.Background()
	inc := a.incarnation
	stale := func() bool { return a.incarnation != inc } // the process was restarted meanwhile
	finish := func(err error) {
		op.done, op.err = true, err
		s.Locked(func() { delete(inflight, name) })
	}
	switch k := s.Choose(4, "client-op"); {
	case k == 0 && a.kind == kindClassic:
		// the documented use of external state changes: a token hand-over from a LEAVING instance
		// (PENDING -> JOINING, claim, JOINING -> ACTIVE, or back to PENDING if it fails)
		var from string
		d := w.desc()
		for _, id := range sortedIDs(d) {
			if id != a.id && d.Ingesters[id].State == ring.LEAVING && len(d.Ingesters[id].Tokens) > 0 {
				from = id
			}
		}
		if from == "" || a.classic.GetState() != ring.PENDING {
			delete(inflight, name)
			return
		}
		fail := s.Chance(0.3, "handover-fails")
		fromTokens := append([]uint32(nil), d.Ingesters[from].Tokens...)
		lc := a.classic
		s.Go(name+"-handover", func() {
			if stale() {
				finish(nil)
				return
			}
			a.handover = true
			if v := w.byID[from]; v != nil {
				v.handover = true // its tokens are taken away
			}
			a.claimFrom = from
			a.claimedFrom[from] = true
			for _, t := range fromTokens {
				a.inheritedTokens[t] = true
			}
			s.Probe("handover-started")
			a := struct{ classic *ring.Lifecycler }{lc}
			if err := a.classic.ChangeState(ctx, ring.JOINING); err != nil {
				finish(err)
				return
			}
			if fail {
				finish(a.classic.ChangeState(ctx, ring.PENDING))
				return
			}
			if err := a.classic.ClaimTokensFor(ctx, from); err != nil {
				finish(err)
				return
			}
			finish(a.classic.ChangeState(ctx, ring.ACTIVE))
		})
	case k == 0 && a.kind == kindBasic:
		target := sim.Pick(s, "target-state", ring.ACTIVE, ring.JOINING, ring.PENDING, ring.LEAVING)
		a.requestedStates[target] = true
		s.Go(name+"-state", func() { finish(a.basic.ChangeState(ctx, target)) })
	case k == 1:
		ro := s.Chance(0.5, "read-only")
		s.Go(name+"-readonly", func() {
			if a.kind == kindClassic {
				finish(a.classic.ChangeReadOnlyState(ctx, ro))
			} else {
				finish(a.basic.ChangeReadOnlyState(ctx, ro))
			}
		})
	case k == 2 && a.kind == kindClassic:
		// legal but unusual: an external PENDING -> ACTIVE before the instance picked tokens
		if a.classic.GetState() != ring.PENDING || !s.Chance(0.3, "force-active") {
			delete(inflight, name)
			return
		}
		s.Go(name+"-force-active", func() {
			if stale() {
				finish(nil)
				return
			}
			a.handover = true // tokens do not come from a fresh join
			s.Probe("forced-active-without-tokens")
			finish(a.classic.ChangeState(ctx, ring.ACTIVE))
		})
	case k == 3 && a.kind == kindClassic:
		flag := s.Chance(0.5, "unregister-flag")
		a.classic.SetUnregisterOnShutdown(flag)
		a.unregister = flag
		delete(inflight, name)
	default:
		delete(inflight, name)
	}
}

func sortedIDs(d *ring.Desc) []string {
	var ids []string
	for id := range d.Ingesters {
		ids = append(ids, id)
	}
	sortStrings(ids)
	return ids
}

// checkReadiness: a lifecycler must not report ready before it is ACTIVE with tokens and, if
// configured, every ring member is ACTIVE and healthy.
func (w *world) checkReadiness() {
	s := w.s
	for _, a := range w.actors {
		if a.kind != kindClassic || !a.started || a.crashed || a.readySeen {
			continue
		}
		if st := a.svc.State(); st != services.Running {
			continue
		}
		var err error
		func() {
			defer func() {
				if r := recover(); r != nil {
					s.Fail("panic", "", "CheckReady panicked: %v", r)
				}
			}()
			err = a.classic.CheckReady(context.Background())
		}()
		if err != nil {
			continue
		}
		a.readySeen = true
		s.Probe("reported-ready")
		d := w.desc()
		e, ok := d.Ingesters[a.id]
		if a.classic.GetState() != ring.ACTIVE && !a.everActive {
			s.Fail("ready-before-active", "", "%s reports ready in state %v and has never been ACTIVE", a.id, a.classic.GetState())
		}
		if ok && len(e.Tokens) == 0 && !a.everTokens && len(a.inheritedTokens) == 0 {
			s.Fail("ready-without-tokens", "", "%s reports ready but its ring entry is %s and it never published tokens", a.id, fmtInst(e, ok))
		}
		if a.readinessHealth {
			now := time.Now()
			for id, x := range d.Ingesters {
				if x.State != ring.ACTIVE || now.Sub(time.Unix(x.Timestamp, 0)) > w.hbTimeout {
					s.Fail("ready-with-unhealthy-ring", "", "%s reports ready (ring health check on) while %s is %s at %v", a.id, id, fmtInst(x, true), now.Unix())
				}
			}
		}
	}
}

// checkHeartbeats: while the store accepts its writes and nothing stalls it, a running lifecycler
// refreshes its entry once per heartbeat period.
func (w *world) checkHeartbeats() {
	s := w.s
	now := s.Elapsed()
	for _, a := range w.actors {
		if a.heartbeat == 0 || !a.started || a.crashed {
			continue
		}
		shuttingDown := a.stopAsked && a.svc.State() == services.Stopping && a.transferring
		if a.stopAsked && !shuttingDown {
			a.disturbedAt = now
			continue
		}
		if (a.svc.State() != services.Running && !shuttingDown) || a.kvWindowOpen {
			a.disturbedAt = now
			continue
		}
		last := a.disturbedAt
		for i := len(w.store.Commits) - 1; i >= 0; i-- {
			c := w.store.Commits[i]
			if c.Writer == a.id {
				if c.At > last {
					last = c.At
				}
				break
			}
		}
		if a.startedAt > last {
			last = a.startedAt
		}
		// a task of this actor parked right now means its write is in flight (the scheduler has not
		// released it yet): not the lifecycler's fault
		if len(s.ParkedWithPrefix(a.id+":")) > 0 {
			continue
		}
		if now-last > a.heartbeat+a.heartbeat/2+time.Second {
			what := "running"
			if shuttingDown {
				what = "shutting down (LEAVING, hand-over in progress)"
				s.Probe("heartbeat-checked-while-leaving")
			}
			s.Fail("heartbeat-missed", "", "%s (heartbeat %v, %s) has not written for %v although the store accepts writes and it was not stalled", a.id, a.heartbeat, what, now-last)
		}
	}
}

// ghostOperation lets the operator add, change or remove the entry of an instance that is not
// simulated: any state (including LEFT with tokens), chosen heartbeat age around the timeout,
// read-only flag, tokens from the tiny alphabet that are free at that moment.
func (w *world) ghostOperation() {
	s := w.s
	d := w.desc()
	id := "g" + itoa(uint64(s.Choose(w.ghostIDs, "ghost-id")))
	zones := w.ghostZones
	if len(zones) == 0 {
		zones = []string{""}
	}
	zone := zones[s.Choose(len(zones), "ghost-zone")]
	kind := s.Choose(4, "ghost-op") // 0,1 add/replace, 2 refresh state/heartbeat, 3 remove
	ages := []time.Duration{0, 59 * time.Second, 60 * time.Second, 61 * time.Second, 10 * time.Minute, 30 * time.Second, 0, time.Second, 2 * time.Second}
	age := ages[s.Choose(len(ages), "ghost-age")]
	state := []ring.InstanceState{ring.ACTIVE, ring.LEFT, ring.LEAVING, ring.JOINING, ring.PENDING, ring.ACTIVE, ring.ACTIVE, ring.ACTIVE}[s.Choose(8, "ghost-state")]
	taken := map[uint32]bool{}
	for gid, e := range d.Ingesters {
		if gid == id {
			continue
		}
		for _, t := range e.Tokens {
			taken[t] = true
		}
	}
	var tokens []uint32
	nTok := []int{1, 0, 2, 3, 1}[s.Choose(5, "ghost-tokens")]
	for _, i := range s.Perm(len(tinyAlphabet), "ghost-token-order") {
		if len(tokens) == nTok {
			break
		}
		if !taken[tinyAlphabet[i]] {
			tokens = append(tokens, tinyAlphabet[i])
		}
	}
	sortU32(tokens)
	readOnly := s.Chance(0.2, "ghost-read-only")
	s.Fault("operator-ghost-entry")
	s.Go("operator-ghost", func() {
		_ = w.opKV.CAS(context.Background(), ringKey, func(in interface{}) (interface{}, bool, error) {
			now := time.Now() // the time of the write, not of the decision to write
			d := ring.GetOrCreateRingDesc(in)
			if d.Ingesters == nil {
				d.Ingesters = map[string]ring.InstanceDesc{}
			}
			e, ok := d.Ingesters[id]
			switch {
			case kind == 3:
				if !ok {
					return nil, false, nil
				}
				d.RemoveIngester(id)
			case kind == 2 && ok:
				e.State = state
				e.Timestamp = now.Add(-age).Unix()
				if w.truthfulGhosts {
					e.Timestamp = now.Unix()
					if readOnly != e.ReadOnly {
						e.ReadOnly, e.ReadOnlyUpdatedTimestamp = readOnly, now.Unix()
					}
				}
				d.Ingesters[id] = e
			case ok && w.truthfulGhosts:
				// a registered instance never changes its tokens or registration time in this mode
				e.Timestamp = now.Unix()
				if readOnly != e.ReadOnly {
					e.ReadOnly, e.ReadOnlyUpdatedTimestamp = readOnly, now.Unix()
				}
				d.Ingesters[id] = e
			default:
				e = ring.InstanceDesc{Id: id, Addr: id + ":1", Zone: zone, State: state, Tokens: tokens,
					Timestamp: now.Add(-age).Unix(), RegisteredTimestamp: now.Add(-age - time.Minute).Unix()}
				if readOnly {
					e.ReadOnly, e.ReadOnlyUpdatedTimestamp = true, now.Add(-age/2).Unix()
				}
				if w.truthfulGhosts {
					e.State, e.Timestamp, e.RegisteredTimestamp = ring.ACTIVE, now.Unix(), now.Unix()
					if readOnly {
						e.ReadOnlyUpdatedTimestamp = now.Unix()
					}
				}
				d.Ingesters[id] = e
			}
			return d, true, nil
		})
	})
}

func sortU32(a []uint32) {
	for i := 1; i < len(a); i++ {
		for j := i; j > 0 && a[j-1] > a[j]; j-- {
			a[j-1], a[j] = a[j], a[j-1]
		}
	}
}
