package wring

import (
	"fmt"
	"sort"
	"strings"
	"time"

	"github.com/grafana/dskit/ring"
	"github.com/grafana/dskit/zzverif/sim"
)

func init() {
	sim.Register("C12", "shuffle-shard", 1, runC12)
}

type shardRecord struct {
	at      time.Duration
	members []string
	desc    string
	zones   int
	tokened bool // every instance owned tokens (the property's quantifier)
	regs    map[string]string // member -> registration identity (registration time and tokens) when recorded
}

func regIdentity(e ring.InstanceDesc) string {
	return fmt.Sprintf("%d/%v/%s", e.RegisteredTimestamp, e.Tokens, e.Zone)
}

// runC12: ring histories produced by lifecyclers (joins, leaves, read-only toggles) plus truthful
// operator-written entries; on every ring version a fresh cache-less client computes the shards of a
// few identifiers and sizes: determinism, size / evenness, no read-only member, containment of
// smaller sizes, stability across single-instance changes; every shard is recorded with its virtual
// time and later look-back queries must return a superset of what was recorded inside the window.
func runC12(s *sim.Sim) {
	zoneAware := s.Chance(0.6, "zone-aware")
	zones := []string{""}
	if zoneAware {
		zones = []string{"a", "b", "c", "d"}[:s.Range(1, 4, "zones")]
	} else if s.Chance(0.5, "zones-anyway") {
		zones = []string{"a", "b"}
	}
	c := ringCfg{rf: 3, zoneAware: zoneAware}
	ids := []string{"tenant-1", "tenant-2", "t3"}
	history := map[string][]shardRecord{} // "id/size" -> recorded shards
	lastVer := -1
	lastQueryAt := time.Duration(0)
	windowChanges := false
	var changeTimes []time.Duration
	lastSilentTokenChange := time.Duration(-1)
	observer := func(w *world) {
		ver := w.store.Version(ringKey)
		for ; w.observedCommits < len(w.store.Commits); w.observedCommits++ {
			cm := w.store.Commits[w.observedCommits]
			in, _ := cm.In.(*ring.Desc)
			out, _ := cm.Out.(*ring.Desc)
			if in != nil && out != nil {
				if membershipChanged(in, out) {
					changeTimes = append(changeTimes, s.Elapsed())
				}
				// an instance that keeps its registration but changes its tokens moves data in a way no timestamp reveals
				for id, e := range in.Ingesters {
					if o, ok := out.Ingesters[id]; ok && o.RegisteredTimestamp == e.RegisteredTimestamp && (fmt.Sprint(o.Tokens) != fmt.Sprint(e.Tokens) || o.Zone != e.Zone) {
						lastSilentTokenChange = s.Elapsed()
						s.Probe("silent-token-change")
					}
				}
				w.checkShardStability(in, out, c, ids)
			}
		}
		versionChanged := ver != lastVer
		if !versionChanged && s.Elapsed()-lastQueryAt < time.Second {
			return
		}
		lastVer, lastQueryAt = ver, s.Elapsed()
		d := w.desc().Clone().(*ring.Desc)
		if _, dup := ownersOf(d); dup || len(d.Ingesters) == 0 {
			// nothing is recorded for this version: the previous records stop being valid here
			if versionChanged {
				for key := range history {
					history[key] = append(history[key], shardRecord{at: s.Elapsed()})
				}
			}
			return
		}
		r := w.freshRing(d, c)
		n := len(d.Ingesters)
		if !versionChanged {
			n = -100 // only the look-back queries are repeated when nothing but the clock moved
		}
		sizes := []int{0, 1, 2, 3, 4, 6, n, n + 2}
		if n < 0 {
			sizes = nil
		}
		for _, id := range ids {
			for _, size := range sizes {
				m := w.shardMembers(r, d, id, size)
				if m == nil {
					continue
				}
				w.checkShardShape(d, c, id, size, m)
				// determinism
				if m2 := w.shardMembers(w.freshRing(d, c), d, id, size); strings.Join(m, ",") != strings.Join(m2, ",") {
					s.Fail("shard-not-deterministic", "", "ShuffleShard(%s, %d) on the same ring content gave %v and %v", id, size, m, m2)
				}
				key := fmt.Sprintf("%s/%d", id, size)
				var owning []string
				for _, x := range m {
					if len(d.Ingesters[x].Tokens) > 0 {
						owning = append(owning, x) // token-less instances own no data: no look-back obligation
					}
				}
				regs := map[string]string{}
				for _, x := range owning {
					regs[x] = regIdentity(d.Ingesters[x])
				}
				history[key] = append(history[key], shardRecord{s.Elapsed(), owning, fmtDesc(d), numZones(d), allHaveTokens(d), regs})
			}
			// containment of smaller shards
			step := 1
			if c.zoneAware {
				step = numZones(d)
			}
			for size := 1; size+step <= n+2 && step > 0; size++ {
				small := w.shardMembers(r, d, id, size)
				big := w.shardMembers(r, d, id, size+step)
				for _, x := range small {
					if !contains(big, x) {
						s.Fail("shard-not-monotone", "", "ShuffleShard(%s, %d)=%v is not contained in ShuffleShard(%s, %d)=%v; ring: %s", id, size, small, id, size+step, big, fmtDesc(d))
					}
				}
			}
		}
		// look-back queries at this instant
		now := time.Now()
		for _, id := range ids {
			for _, size := range []int{1, 2, 3, 4} {
				periods := []time.Duration{30 * time.Second, 2 * time.Minute, 10 * time.Minute}
				// and windows that start exactly in the second of a recent registration or read-only switch
				extra := map[time.Duration]bool{}
				for _, e := range d.Ingesters {
					for _, ts := range []int64{e.RegisteredTimestamp, e.ReadOnlyUpdatedTimestamp} {
						if p := now.Sub(time.Unix(ts, 0)); ts > 0 && p > 0 && p < 10*time.Minute && len(extra) < 3 && !extra[p] {
							extra[p] = true
							periods = append(periods, p)
						}
					}
				}
				sort.Slice(periods, func(i, j int) bool { return periods[i] < periods[j] })
				for _, period := range periods {
					var sub ring.ReadRing
					w.try("ShuffleShardWithLookback", func() { sub = r.ShuffleShardWithLookback(id, size, period, now) })
					if sub == nil {
						continue
					}
					hist := history[fmt.Sprintf("%s/%d", id, size)]
					for i, rec := range hist {
						// the record describes the shard from rec.at until the next record
						until := s.Elapsed()
						if i+1 < len(hist) {
							until = hist[i+1].at
						}
						if until < s.Elapsed()-period || !rec.tokened || !allHaveTokens(d) {
							continue
						}
						if rec.at <= lastSilentTokenChange {
							continue // "as far as registration and read-only change times reveal"
						}
						for _, m := range rec.members {
							if e, still := d.Ingesters[m]; !still || len(e.Tokens) == 0 {
								continue
							} else if regIdentity(e) != rec.regs[m] {
								// registered anew (or with other tokens) since: not the registration that was in the shard
								s.Probe("lookback-member-reregistered")
								continue
							}
							if !sub.HasInstance(m) {
								key := ""
								if c.zoneAware && rec.zones != numZones(d) {
									key = "zone-count-changed"
								}
								s.Fail("lookback-misses-past-member", key, "ShuffleShardWithLookback(%s, %d, %v) at %v does not contain %s, which was in the shard %v recorded %v ago and is still registered; zoneAware=%v; ring now: %s; ring then: %s", id, size, period, s.Elapsed(), m, rec.members, s.Elapsed()-rec.at, c.zoneAware, fmtDesc(d), rec.desc)
							}
						}
					}
					for _, ct := range changeTimes {
						if s.Elapsed()-ct <= period && s.Elapsed()-ct > 0 {
							windowChanges = true
						}
					}
					s.ProbeN("lookback-queries", 1)
				}
			}
		}
	}
	w := runLifecycle(s, lifecycleOpts{kinds: []lcKind{kindClassic, kindBasic}, minActors: 2, maxActors: 8, zones: zones, faults: false, ghosts: true, truthfulGhosts: true, ghostBudget: 25, ghostIDs: 8, observer: observer, maxVirtual: 12 * time.Minute, longAdvances: true, noStalls: true})
	s.Nontrivial = windowChanges
	s.Note("zoneAware=%v zones=%v actors=%d final=%s", zoneAware, zones, len(w.actors), fmtDesc(w.desc()))
}

func contains(l []string, x string) bool {
	for _, y := range l {
		if y == x {
			return true
		}
	}
	return false
}

func numZones(d *ring.Desc) int {
	z := map[string]bool{}
	for _, e := range d.Ingesters {
		z[e.Zone] = true
	}
	return len(z)
}

func membershipChanged(in, out *ring.Desc) bool {
	for id, e := range in.Ingesters {
		o, ok := out.Ingesters[id]
		if !ok || o.ReadOnly != e.ReadOnly {
			return true
		}
	}
	for id := range out.Ingesters {
		if _, ok := in.Ingesters[id]; !ok {
			return true
		}
	}
	return false
}

// shardMembers returns the sorted ids of the instances in ShuffleShard(id, size).
func (w *world) shardMembers(r *ring.Ring, d *ring.Desc, id string, size int) []string {
	var sub ring.ReadRing
	w.try("ShuffleShard", func() { sub = r.ShuffleShard(id, size) })
	if sub == nil {
		return nil
	}
	m := []string{}
	for _, iid := range sortedIDs(d) {
		if sub.HasInstance(iid) {
			m = append(m, iid)
		}
	}
	sort.Strings(m)
	return m
}

// checkShardShape: requested size rounded up to a multiple of the zones, evenly spread, fewer only
// where a zone runs out of eligible instances, never a read-only instance.
func (w *world) checkShardShape(d *ring.Desc, c ringCfg, id string, size int, members []string) {
	s := w.s
	for _, m := range members {
		if d.Ingesters[m].ReadOnly {
			s.Fail("shard-contains-read-only", "", "ShuffleShard(%s, %d) = %v contains the read-only instance %s", id, size, members, m)
		}
	}
	type zinfo struct{ withTokens, all int }
	zi := map[string]*zinfo{}
	zoneOf := func(e ring.InstanceDesc) string {
		if c.zoneAware {
			return e.Zone
		}
		return ""
	}
	for _, e := range d.Ingesters {
		z := zoneOf(e)
		if zi[z] == nil {
			zi[z] = &zinfo{}
		}
		if e.ReadOnly {
			continue
		}
		zi[z].all++
		if len(e.Tokens) > 0 {
			zi[z].withTokens++
		}
	}
	nz := len(zi)
	if size <= 0 {
		// the whole ring without read-only instances
		want := 0
		for _, z := range zi {
			want += z.all
		}
		if len(members) != want {
			s.Fail("shard-size", "", "ShuffleShard(%s, %d) should be the whole ring without read-only instances (%d), got %v", id, size, want, members)
		}
		return
	}
	perZone := (size + nz - 1) / nz
	got := map[string]int{}
	for _, m := range members {
		got[zoneOf(d.Ingesters[m])]++
	}
	for z, info := range zi {
		lo, hi := minInt(perZone, info.withTokens), minInt(perZone, info.all)
		if got[z] < lo || got[z] > hi {
			s.Fail("shard-size", "", "ShuffleShard(%s, %d) with %d zones (quota %d per zone): zone %q contributes %d instances, expected %d..%d (eligible with tokens %d, all %d); shard %v; ring: %s", id, size, nz, perZone, z, got[z], lo, hi, info.withTokens, info.all, members, fmtDesc(d))
		}
	}
}

func minInt(a, b int) int {
	if a < b {
		return a
	}
	return b
}

// checkShardStability: adding or removing one instance changes a shard by at most one instance.
func (w *world) checkShardStability(in, out *ring.Desc, c ringCfg, ids []string) {
	s := w.s
	var changed string
	n := 0
	for id := range in.Ingesters {
		if _, ok := out.Ingesters[id]; !ok {
			changed, n = id, n+1
		}
	}
	for id := range out.Ingesters {
		if _, ok := in.Ingesters[id]; !ok {
			changed, n = id, n+1
		}
	}
	if n != 1 {
		return
	}
	for id, e := range in.Ingesters {
		if o, ok := out.Ingesters[id]; ok && (e.ReadOnly != o.ReadOnly || fmt.Sprint(e.Tokens) != fmt.Sprint(o.Tokens) || e.Zone != o.Zone) {
			return
		}
	}
	if _, dup := ownersOf(in); dup {
		return
	}
	if _, dup := ownersOf(out); dup {
		return
	}
	if len(in.Ingesters) == 0 || len(out.Ingesters) == 0 {
		return
	}
	// the property quantifies over rings whose instances own 1..128 tokens
	if !allHaveTokens(in) || !allHaveTokens(out) {
		return
	}
	rin := w.freshRing(in.Clone().(*ring.Desc), c)
	rout := w.freshRing(out.Clone().(*ring.Desc), c)
	zoneSetChanged := numZones(in) != numZones(out)
	for _, id := range ids {
		for _, size := range []int{1, 2, 3, 4, 6} {
			a := w.shardMembers(rin, in, id, size)
			b := w.shardMembers(rout, out, id, size)
			diff := 0
			for _, x := range a {
				if !contains(b, x) {
					diff++
				}
			}
			for _, x := range b {
				if !contains(a, x) {
					diff++
				}
			}
			// replacing one member by another counts as one difference
			limit := 1
			if diff == 2 && len(a) == len(b) {
				limit = 2
			}
			s.ProbeN("stability-pairs-compared", 1)
			if diff > limit {
				key := ""
				if zoneSetChanged && c.zoneAware {
					key = "zone-count-changed"
				}
				s.Fail("shard-not-stable", key, "registering/removing %s changed ShuffleShard(%s, %d) from %v to %v (%d differences); zones before %d, after %d", changed, id, size, a, b, diff, numZones(in), numZones(out))
			}
		}
	}
}

func allHaveTokens(d *ring.Desc) bool {
	for _, e := range d.Ingesters {
		if len(e.Tokens) == 0 {
			return false
		}
	}
	return true
}
