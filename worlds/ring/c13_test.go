package wring

// C13: a long-lived ring client (caches on) fed through the store's watch gives the same answers
// as a client freshly built from the last ring content it was handed.

import (
	"context"
	"fmt"
	"sort"
	"strings"
	"sync"
	"time"

	"github.com/grafana/dskit/kv"
	"github.com/grafana/dskit/kv/consul"
	"github.com/grafana/dskit/ring"
	"github.com/grafana/dskit/services"
	"github.com/grafana/dskit/zzverif/sim"
	"github.com/grafana/dskit/zzverif/simkv"
)

func init() {
	sim.Register("C13", "ring-client", 3, func(s *sim.Sim) { runC13(s, false) })
	sim.Register("C13", "ring-client-concurrent-readers", 2, func(s *sim.Sim) { runC13(s, true) })
}

// sharedKV hands out shallow clones like the gossip store does: consecutive versions share the token
// storage of instances whose entry was not replaced.
type sharedKV struct {
	mu   sync.Mutex
	data map[string]*ring.Desc
}

func (k *sharedKV) List(context.Context, string) ([]string, error) { return nil, nil }
func (k *sharedKV) Get(_ context.Context, key string) (interface{}, error) {
	k.mu.Lock()
	defer k.mu.Unlock()
	d := k.data[key]
	if d == nil {
		return nil, nil
	}
	return d.Clone().(*ring.Desc), nil
}
func (k *sharedKV) Delete(_ context.Context, key string) error {
	k.mu.Lock()
	defer k.mu.Unlock()
	delete(k.data, key)
	return nil
}
func (k *sharedKV) CAS(_ context.Context, key string, f func(interface{}) (interface{}, bool, error)) error {
	k.mu.Lock()
	defer k.mu.Unlock()
	var in interface{}
	if d := k.data[key]; d != nil {
		in = d.Clone()
	}
	out, _, err := f(in)
	if err != nil || out == nil {
		return err
	}
	k.data[key] = out.(*ring.Desc)
	return nil
}
func (k *sharedKV) WatchKey(ctx context.Context, _ string, _ func(interface{}) bool) { <-ctx.Done() }
func (k *sharedKV) WatchPrefix(ctx context.Context, _ string, _ func(string, interface{}) bool) {
	<-ctx.Done()
}

var _ kv.Client = (*sharedKV)(nil)

func deepDesc(d *ring.Desc) *ring.Desc {
	out := ring.NewDesc()
	if d == nil {
		return out
	}
	for id, e := range d.Ingesters {
		e.Tokens = append([]uint32(nil), e.Tokens...)
		if e.Versions != nil {
			v := map[uint64]uint64{}
			for k, x := range e.Versions {
				v[k] = x
			}
			e.Versions = v
		}
		out.Ingesters[id] = e
	}
	return out
}

func fmtFull(e ring.InstanceDesc) string {
	var vs []string
	for k, v := range e.Versions {
		vs = append(vs, fmt.Sprintf("%d=%d", k, v))
	}
	sort.Strings(vs)
	return fmt.Sprintf("%s|%s|z=%s|ts=%d|%v|tok=%v|reg=%d|ro=%v@%d|v=%v", e.Id, e.Addr, e.Zone, e.Timestamp, e.State, e.Tokens, e.RegisteredTimestamp, e.ReadOnly, e.ReadOnlyUpdatedTimestamp, vs)
}

func fmtSet(rs ring.ReplicationSet, err error) string {
	if err != nil {
		return "err(" + err.Error() + ")"
	}
	var parts []string
	for _, i := range rs.Instances {
		parts = append(parts, fmtFull(i))
	}
	sort.Strings(parts)
	return fmt.Sprintf("{%s maxErr=%d maxZones=%d za=%v}", strings.Join(parts, " ; "), rs.MaxErrors, rs.MaxUnavailableZones, rs.ZoneAwarenessEnabled)
}

// c13query is one question; run returns a canonical rendering of the answer.
type c13query struct {
	kind     string
	id       string
	size     int
	lookback time.Duration
	nowOff   time.Duration
	op       int
	key      uint32
	zone     string
	inst     string
}

func (q c13query) String() string {
	switch q.kind {
	case "shard":
		return fmt.Sprintf("ShuffleShard(%s,%d)", q.id, q.size)
	case "shard-lookback":
		return fmt.Sprintf("ShuffleShardWithLookback(%s,%d,%v,now%+v)", q.id, q.size, q.lookback, q.nowOff)
	case "get":
		return fmt.Sprintf("Get(%d,%s)", q.key, allOps[q.op].name)
	case "healthy":
		return fmt.Sprintf("GetAllHealthy(%s)", allOps[q.op].name)
	case "replset":
		return fmt.Sprintf("GetReplicationSetForOperation(%s)", allOps[q.op].name)
	case "subring-op":
		return fmt.Sprintf("GetSubringForOperationStates(%s)", allOps[q.op].name)
	case "instance":
		return fmt.Sprintf("instance(%s)", q.inst)
	case "zone":
		return fmt.Sprintf("zone-counts(%q)", q.zone)
	case "c-shard":
		return fmt.Sprintf("members of ShuffleShard(%s,%d)", q.id, q.size)
	case "c-shard-lookback":
		return fmt.Sprintf("members of ShuffleShardWithLookback(%s,%d,%v,now%+v)", q.id, q.size, q.lookback, q.nowOff)
	case "c-state", "c-ranges":
		return q.kind + "(" + q.inst + ")"
	}
	return q.kind
}

const selfRing = "the ring itself"

var c13keys = []uint32{0, 1, 2, 5, 1000, 1 << 31, 0x7fffffff, 0xfffffffe, 0xffffffff}

// ringFP renders everything a ReadRing answers about itself.
func ringFP(r ring.ReadRing, ids []string) string {
	var b strings.Builder
	fmt.Fprintf(&b, "n=%d tok=%d wr=%d zones=%v/%d rf=%d", r.InstancesCount(), r.InstancesWithTokensCount(), r.WritableInstancesWithTokensCount(), r.Zones(), r.ZonesCount(), r.ReplicationFactor())
	for _, z := range []string{"", "a", "b", "c"} {
		fmt.Fprintf(&b, " z%s=%d/%d/%d", z, r.InstancesInZoneCount(z), r.InstancesWithTokensInZoneCount(z), r.WritableInstancesWithTokensInZoneCount(z))
	}
	for _, o := range allOps {
		rs, err := r.GetAllHealthy(o.op)
		fmt.Fprintf(&b, " healthy(%s)=%s", o.name, fmtSet(rs, err))
		rs, err = r.GetReplicationSetForOperation(o.op)
		fmt.Fprintf(&b, " replset(%s)=%s", o.name, fmtSet(rs, err))
	}
	for _, k := range c13keys {
		rs, err := r.Get(k, ring.Read, nil, nil, nil)
		fmt.Fprintf(&b, " get(%d)=%s", k, fmtSet(rs, err))
	}
	for _, id := range ids {
		st, err := r.GetInstanceState(id)
		fmt.Fprintf(&b, " %s:has=%v,state=%v/%v", id, r.HasInstance(id), st, err != nil)
		tr, err := r.GetTokenRangesForInstance(id)
		fmt.Fprintf(&b, ",ranges=%v/%v", tr, err != nil)
	}
	return b.String()
}

// fpDiff shows where two renderings differ (common prefix and suffix elided).
func fpDiff(a, b string) string {
	i := 0
	for i < len(a) && i < len(b) && a[i] == b[i] {
		i++
	}
	j := 0
	for j < len(a)-i && j < len(b)-i && a[len(a)-1-j] == b[len(b)-1-j] {
		j++
	}
	lo := i - 60
	if lo < 0 {
		lo = 0
	}
	cut := func(x string) string {
		hi := len(x) - j + 60
		if hi > len(x) {
			hi = len(x)
		}
		if hi < lo {
			hi = lo
		}
		out := x[lo:hi]
		if len(out) > 900 {
			out = out[:900] + "..."
		}
		return out
	}
	return fmt.Sprintf("...%s...\n   vs\n   ...%s...", cut(a), cut(b))
}

// topoFP renders what a sub-ring handed out earlier can never change: its members and their placement.
func topoFP(r ring.ReadRing, ids []string) string {
	var b strings.Builder
	fmt.Fprintf(&b, "n=%d tok=%d zones=%v", r.InstancesCount(), r.InstancesWithTokensCount(), r.Zones())
	for _, id := range ids {
		tr, err := r.GetTokenRangesForInstance(id)
		fmt.Fprintf(&b, " %s:has=%v,ranges=%v/%v", id, r.HasInstance(id), tr, err != nil)
	}
	return b.String()
}

func (q c13query) run(r *ring.Ring, ids []string) string {
	switch q.kind {
	case "counts":
		return fmt.Sprintf("n=%d tok=%d wr=%d zones=%v/%d", r.InstancesCount(), r.InstancesWithTokensCount(), r.WritableInstancesWithTokensCount(), r.Zones(), r.ZonesCount())
	case "zone":
		return fmt.Sprintf("%d/%d/%d", r.InstancesInZoneCount(q.zone), r.InstancesWithTokensInZoneCount(q.zone), r.WritableInstancesWithTokensInZoneCount(q.zone))
	case "get":
		rs, err := r.Get(q.key, allOps[q.op].op, nil, nil, nil)
		return fmtSet(rs, err)
	case "healthy":
		rs, err := r.GetAllHealthy(allOps[q.op].op)
		return fmtSet(rs, err)
	case "replset":
		rs, err := r.GetReplicationSetForOperation(allOps[q.op].op)
		return fmtSet(rs, err)
	case "instance":
		st, err := r.GetInstanceState(q.inst)
		in, err2 := r.GetInstance(q.inst)
		tr, err3 := r.GetTokenRangesForInstance(q.inst)
		return fmt.Sprintf("has=%v state=%v/%v inst=%s/%v ranges=%v/%v", r.HasInstance(q.inst), st, err != nil, fmtFull(in), err2 != nil, tr, err3 != nil)
	case "shard":
		return ringFP(r.ShuffleShard(q.id, q.size), ids)
	case "shard-lookback":
		return ringFP(r.ShuffleShardWithLookback(q.id, q.size, q.lookback, time.Now().Add(q.nowOff)), ids)
	case "subring-op":
		return ringFP(r.GetSubringForOperationStates(allOps[q.op].op), ids)
	case "whole":
		return ringFP(r, ids)
	// single-call questions for concurrent readers (a rendering made of several calls may legitimately mix versions)
	case "c-state":
		st, err := r.GetInstanceState(q.inst)
		return fmt.Sprintf("%v/%v", st, err != nil)
	case "c-ranges":
		tr, err := r.GetTokenRangesForInstance(q.inst)
		return fmt.Sprintf("%v/%v", tr, err != nil)
	case "c-count":
		return fmt.Sprint(r.InstancesCount())
	case "c-zones":
		return fmt.Sprint(r.Zones())
	case "c-shard", "c-shard-lookback":
		var sub ring.ReadRing
		if q.kind == "c-shard" {
			sub = r.ShuffleShard(q.id, q.size)
		} else {
			sub = r.ShuffleShardWithLookback(q.id, q.size, q.lookback, time.Now().Add(q.nowOff))
		}
		if sr, ok := sub.(*ring.Ring); ok && sr == r {
			return selfRing // a live object: several calls on it may see several versions
		}
		return topoFP(sub, ids)
	}
	panic("unknown query " + q.kind)
}

func runC13(s *sim.Sim, concurrent bool) {
	w := newWorld(s)
	zoneAware := s.Chance(0.5, "zone-aware")
	cfg := ringCfg{rf: s.Range(1, 3, "rf"), zoneAware: zoneAware}
	w.hbTimeout = time.Minute
	var excluded []string
	if s.Chance(0.15, "excluded-zone") {
		excluded = []string{"c"}
	}
	mkCfg := func(cacheOff bool) ring.Config {
		c := cfg.config(cacheOff, w.hbTimeout)
		c.ExcludedZones = excluded
		return c
	}
	// backend: the consul mock (every read decodes a fresh copy) or a store that shares token storage
	// between versions (like the gossip store)
	sharing := s.Chance(0.5, "storage-sharing-store")
	if sharing {
		w.store = simkv.NewStore(s, &sharedKV{data: map[string]*ring.Desc{}}, cloneDesc)
	} else {
		inner, closer := consul.NewInMemoryClient(ring.GetCodec(), w.logger, nil)
		s.OnEnd(func() { _ = closer.Close() })
		w.store = simkv.NewStore(s, inner, cloneDesc)
	}
	if concurrent {
		s.L2NamedOnly = true
		s.EnableL2(sim.Pick(s, "l2-percent", 100, 60, 30))
	}

	ids := []string{"i0", "i1", "i2", "i3", "i4", "i5", "nope"}
	zones := []string{"a", "b", "c"}
	if !zoneAware && s.Chance(0.5, "no-zones") {
		zones = []string{""}
	}
	cur := ring.NewDesc()
	nextTok := uint32(10)
	usedTok := map[uint32]bool{}
	freshTokens := func(n int) []uint32 {
		var out []uint32
		for len(out) < n {
			var t uint32
			if s.Chance(0.4, "tiny-token") {
				t = tinyAlphabet[s.Choose(len(tinyAlphabet), "tok")]
			} else {
				nextTok += uint32(s.Range(1, 500000000, "tok-gap"))
				t = nextTok
			}
			if usedTok[t] {
				continue
			}
			usedTok[t] = true
			out = append(out, t)
		}
		sort.Slice(out, func(i, j int) bool { return out[i] < out[j] })
		return out
	}
	pastOffsets := []time.Duration{0, 30 * time.Second, 5 * time.Minute, 30 * time.Minute, 2 * time.Hour}
	past := func(what string) int64 {
		return time.Now().Add(-pastOffsets[s.Choose(len(pastOffsets), what)]).Unix()
	}
	newInstance := func(id string) ring.InstanceDesc {
		e := ring.InstanceDesc{Id: id, Addr: id + ":1", Zone: zones[s.Choose(len(zones), "zone")], State: ring.ACTIVE, Timestamp: time.Now().Unix(), Tokens: freshTokens(s.Range(0, 3, "ntok"))}
		if s.Chance(0.8, "registered-known") {
			e.RegisteredTimestamp = past("registered")
		}
		if s.Chance(0.2, "born-read-only") {
			e.ReadOnly, e.ReadOnlyUpdatedTimestamp = true, past("ro-updated")
		}
		return e
	}
	mutate := func() string {
		var present []string
		for _, id := range ids[:6] {
			if _, ok := cur.Ingesters[id]; ok {
				present = append(present, id)
			}
		}
		kind := sim.Pick(s, "mutation", "heartbeat", "state", "tokens", "zone", "addr", "registered", "read-only", "read-only-twice", "versions", "add", "remove", "same", "heartbeat", "state", "add")
		if len(present) == 0 {
			kind = "add"
		}
		switch kind {
		case "add":
			var absent []string
			for _, id := range ids[:6] {
				if _, ok := cur.Ingesters[id]; !ok {
					absent = append(absent, id)
				}
			}
			if len(absent) == 0 {
				return "none"
			}
			id := absent[s.Choose(len(absent), "add-which")]
			cur.Ingesters[id] = newInstance(id)
			return "add " + id
		case "same":
			return "same"
		}
		id := present[s.Choose(len(present), "which")]
		e := cur.Ingesters[id]
		switch kind {
		case "heartbeat":
			e.Timestamp = time.Now().Add(-sim.Pick(s, "hb-age", 0, 0, 30*time.Second, 59*time.Second, 61*time.Second, 10*time.Minute)).Unix()
		case "state":
			e.State = sim.Pick(s, "new-state", ring.ACTIVE, ring.LEAVING, ring.PENDING, ring.JOINING, ring.LEFT)
		case "tokens":
			for _, t := range e.Tokens {
				delete(usedTok, t)
			}
			e.Tokens = freshTokens(s.Range(0, 3, "ntok")) // a new slice: the entry is replaced, never edited in place
		case "zone":
			e.Zone = zones[s.Choose(len(zones), "zone")]
		case "addr":
			e.Addr = fmt.Sprintf("%s:%d", id, s.Range(1, 3, "port"))
		case "registered":
			e.RegisteredTimestamp = past("registered")
			if s.Chance(0.2, "registered-unknown") {
				e.RegisteredTimestamp = 0
			}
		case "read-only":
			e.ReadOnly = !e.ReadOnly
			e.ReadOnlyUpdatedTimestamp = past("ro-updated")
		case "read-only-twice":
			// switched and switched back between two hand-overs: only the time of the switch differs
			e.ReadOnlyUpdatedTimestamp = past("ro-updated")
		case "versions":
			e.Versions = map[uint64]uint64{1: uint64(s.Range(1, 3, "version"))}
		case "remove":
			for _, t := range e.Tokens {
				delete(usedTok, t)
			}
			delete(cur.Ingesters, id)
			return "remove " + id
		}
		cur.Ingesters[id] = e
		return kind + " " + id
	}
	write := func(what string) {
		// the store receives its own copy of the map; token slices of untouched entries are shared on purpose
		out := cur.Clone().(*ring.Desc)
		if err := w.store.Put(ringKey, out); err != nil {
			panic(err)
		}
		s.Event("write %s -> %s", what, fmtDesc(cur))
	}

	// initial content
	for i := s.Range(0, 4, "initial-instances"); i > 0; i-- {
		mutate()
	}
	write("initial")

	var seen []*ring.Desc // what the client has been handed, in order
	var seenMu sync.Mutex
	w.store.OnWatch = func(actor, key string, v interface{}) {
		if actor != "client" {
			return
		}
		d := deepDesc(v.(*ring.Desc))
		seenMu.Lock()
		seen = append(seen, d)
		seenMu.Unlock()
		s.Event("client is handed version %d: %s", len(seen)-1, fmtDesc(d))
	}
	clientKV := w.store.NewClient("client")
	client, err := ring.NewWithStoreClientAndStrategy(mkCfg(false), "cached", ringKey, clientKV, ring.NewDefaultReplicationStrategy(), nil, w.logger)
	if err != nil {
		panic(err)
	}
	seen = append(seen, deepDesc(cur))
	if err := client.StartAsync(context.Background()); err != nil {
		panic(err)
	}
	s.OnEnd(func() { client.StopAsync() })
	s.Wait()
	if concurrent {
		s.DrainL2(1000)
	}
	if client.State() != services.Running {
		panic("ring client did not start: " + client.State().String())
	}

	freshFor := map[int]*ring.Ring{}
	freshOf := func(ver int) *ring.Ring {
		if r, ok := freshFor[ver]; ok {
			return r
		}
		r, err := ring.NewWithStoreClientAndStrategy(mkCfg(true), "fresh", ringKey, &staticKV{desc: deepDesc(seen[ver])}, ring.NewDefaultReplicationStrategy(), nil, w.logger)
		if err != nil {
			panic(err)
		}
		if err := r.StartAsync(context.Background()); err != nil {
			panic(err)
		}
		s.Wait()
		if r.State() != services.Running {
			panic("fresh ring client did not start")
		}
		freshFor[ver] = r
		w.fresh = append(w.fresh, r)
		// older fresh clients are not needed once no reader can refer to their version
		for v, old := range freshFor {
			if v < ver-3 {
				old.StopAsync()
				delete(freshFor, v)
			}
		}
		return r
	}

	var asked []c13query // look-back questions asked so far: asking them again at another query time hits the cache
	randomQuery := func() c13query {
		if len(asked) > 0 && s.Chance(0.3, "ask-again") {
			q := asked[s.Choose(len(asked), "again-which")]
			q.nowOff = sim.Pick(s, "now-offset", 0, 0, -time.Minute, -10*time.Minute, -time.Hour, -3*time.Hour, time.Minute, 10*time.Minute, time.Hour)
			return q
		}
		q := c13query{kind: sim.Pick(s, "query", "shard", "shard-lookback", "shard", "shard-lookback", "get", "healthy", "replset", "instance", "zone", "counts", "subring-op", "whole")}
		q.id = []string{"t1", "t2"}[s.Choose(2, "tenant")]
		q.size = sim.Pick(s, "size", 0, 1, 2, 3, 1, 2, 6, 7)
		q.lookback = sim.Pick(s, "lookback", time.Minute, 10*time.Minute, 10*time.Minute, time.Hour, 3*time.Hour, time.Minute+500*time.Millisecond, 10*time.Minute+500*time.Millisecond)
		q.nowOff = sim.Pick(s, "now-offset", 0, 0, -time.Minute, -10*time.Minute, -time.Hour, -3*time.Hour, time.Minute, 10*time.Minute, time.Hour)
		q.op = s.Choose(len(allOps), "op")
		q.key = c13keys[s.Choose(len(c13keys), "key")]
		q.zone = []string{"", "a", "b", "c", "zz"}[s.Choose(5, "qzone")]
		q.inst = ids[s.Choose(len(ids), "qinst")]
		if q.kind == "shard-lookback" && len(asked) < 8 {
			asked = append(asked, q)
		}
		return q
	}
	hits := 0
	compare := func(q c13query) {
		ver := len(seen) - 1
		var got, want string
		w.try(q.String()+" on the long-lived client", func() { got = q.run(client, ids) })
		w.try(q.String()+" on a fresh client", func() { want = q.run(freshOf(ver), ids) })
		s.ProbeN("answers-compared", 1)
		if got != want {
			s.Fail("stale-answer", q.kind, "%s: the long-lived client and a client built from the latest content (version %d: %s) differ:\n   %s", q, ver, fmtDesc(seen[ver]), fpDiff(got, want))
		}
	}

	// concurrent readers (L2 scenario): answers must match some version that was current while they ran
	type reading struct {
		q        c13query
		from, to int
		got      string
		done     bool
	}
	var readings []*reading
	var followUps []c13query
	inflight := 0
	startReader := func() {
		rd := &reading{q: randomQuery()}
		rd.q.kind = sim.Pick(s, "concurrent-query", "c-shard", "c-shard-lookback", "c-shard", "c-shard-lookback", "get", "healthy", "replset", "c-state", "c-ranges", "c-count", "c-zones")
		seenMu.Lock()
		rd.from = len(seen) - 2 // the hand-over of the newest version may still be in progress
		seenMu.Unlock()
		if rd.from < 0 {
			rd.from = 0
		}
		readings = append(readings, rd)
		inflight++
		s.Go(fmt.Sprintf("reader%d", len(readings)), func() {
			got := rd.q.run(client, ids)
			seenMu.Lock()
			rd.got, rd.to, rd.done = got, len(seen)-1, true
			seenMu.Unlock()
			s.Locked(func() { inflight-- })
		})
	}
	settle := func() {
		if !concurrent {
			s.Wait()
			return
		}
		s.Wait()
		for i := 0; i < 5000 && (len(s.Parked()) > 0); i++ {
			names := s.Parked()
			s.Release(names[s.Choose(len(names), "settle")])
		}
		for _, rd := range readings {
			if !rd.done {
				panic("reader did not finish")
			}
			ok := false
			var wants []string
			for v := rd.from; v <= rd.to && !ok; v++ {
				var want string
				w.try("fresh client", func() { want = rd.q.run(freshOf(v), ids) })
				wants = append(wants, fmt.Sprintf("v%d: %s", v, want))
				ok = want == rd.got
				if !ok && (rd.got == selfRing || want == selfRing) {
					// one side handed out the ring itself, the other an equivalent copy: compare the members
					whole := topoFP(freshOf(v), ids)
					ok = (rd.got == selfRing || rd.got == whole) && (want == selfRing || want == whole)
				}
			}
			s.ProbeN("concurrent-answers-compared", 1)
			if rd.to > rd.from {
				s.Probe("read-overlapped-an-update")
			}
			if strings.HasPrefix(rd.q.kind, "c-shard") {
				followUps = append(followUps, rd.q)
			}
			if !ok {
				s.Fail("stale-answer", "concurrent-"+rd.q.kind, "%s issued while updates were being applied answered\n   %s\n which matches none of the versions current meanwhile:\n   %s", rd.q, rd.got, strings.Join(wants, "\n   "))
			}
		}
		readings = nil
		// whatever the concurrent readers left in the caches must be right for the version current now
		for _, q := range followUps {
			q.kind = strings.TrimPrefix(q.kind, "c-")
			compare(q)
			s.Probe("follow-up-after-concurrent-read")
		}
		followUps = nil
	}

	steps := s.Range(10, 70, "steps")
	updates, classified := 0, map[string]bool{}
	for i := 0; i < steps && s.Budget(); i++ {
		s.Wait()
		type alt struct {
			w   int
			run func()
		}
		alts := []alt{
			{4, func() {
				n := 1 + s.Choose(2, "mutations")
				var what []string
				for j := 0; j < n; j++ {
					k := mutate()
					what = append(what, k)
					classified[strings.Fields(k)[0]] = true
				}
				write(strings.Join(what, ", "))
				updates++
			}},
			{3, func() {
				if p := w.store.PendingWatchers(); len(p) > 0 {
					w.store.Deliver(p[0])
					s.Wait()
				}
			}},
			{2, func() {
				if concurrent {
					settle() // no read spans a clock advance
				}
				s.Advance(sim.Pick(s, "advance", time.Second, 20*time.Second, 61*time.Second, 10*time.Minute, time.Hour))
			}},
			{1, func() {
				id := []string{"t1", "t2"}[s.Choose(2, "cleanup")]
				if concurrent {
					settle()
				}
				client.CleanupShuffleShardCache(id)
			}},
		}
		if concurrent {
			alts = append(alts, alt{4, startReader})
			if names := s.Parked(); len(names) > 0 {
				alts = append(alts, alt{8, func() { s.Release(names[s.Choose(len(names), "release")]) }})
			}
		}
		total := 0
		for _, a := range alts {
			total += a.w
		}
		v := s.Choose(total, "step")
		for _, a := range alts {
			if v < a.w {
				a.run()
				break
			}
			v -= a.w
		}
		if concurrent {
			if len(s.Parked()) > 0 && !s.Chance(0.3, "settle-now") {
				continue
			}
			settle()
		}
		// a few questions after every step; repeated questions hit the caches filled earlier
		for n := s.Choose(4, "questions"); n > 0; n-- {
			compare(randomQuery())
			hits++
		}
	}
	if concurrent {
		settle()
	}
	w.store.DeliverAll()
	settle()
	for _, kind := range []string{"whole", "shard", "shard-lookback"} {
		q := randomQuery()
		q.kind = kind
		compare(q)
	}
	s.Nontrivial = updates >= 3 && len(seen) >= 3 && hits >= 5
	s.Note("updates=%d versions-seen=%d questions=%d concurrent=%v sharing=%v final=%s", updates, len(seen), hits, concurrent, sharing, fmtDesc(cur))
	s.State(len(seen), fmtDesc(cur))
}
