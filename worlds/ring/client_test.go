package wring

// Ring clients in the RING world: fresh cache-less clients built from a descriptor (reference side
// of differentials), a long-lived client fed through the store's watch, and the reference models
// written from the property statements (hash-ring walk, quorum arithmetic, token ranges).

import (
	"context"
	"fmt"
	"sort"
	"strings"
	"time"

	"github.com/grafana/dskit/kv"
	"github.com/grafana/dskit/ring"
	"github.com/grafana/dskit/services"
)

// staticKV serves one fixed descriptor.
type staticKV struct {
	desc *ring.Desc
}

func (k *staticKV) List(context.Context, string) ([]string, error) { return nil, nil }
func (k *staticKV) Get(context.Context, string) (interface{}, error) {
	if k.desc == nil {
		return nil, nil
	}
	return k.desc.Clone().(*ring.Desc), nil
}
func (k *staticKV) Delete(context.Context, string) error { return nil }
func (k *staticKV) CAS(context.Context, string, func(interface{}) (interface{}, bool, error)) error {
	return fmt.Errorf("read only")
}
func (k *staticKV) WatchKey(ctx context.Context, _ string, _ func(interface{}) bool) { <-ctx.Done() }
func (k *staticKV) WatchPrefix(ctx context.Context, _ string, _ func(string, interface{}) bool) {
	<-ctx.Done()
}

var _ kv.Client = (*staticKV)(nil)

type ringCfg struct {
	rf        int
	zoneAware bool
}

func (c ringCfg) config(cacheDisabled bool, hb time.Duration) ring.Config {
	return ring.Config{HeartbeatTimeout: hb, ReplicationFactor: c.rf, ZoneAwarenessEnabled: c.zoneAware, SubringCacheDisabled: cacheDisabled}
}

// freshRing starts a cache-less client on exactly the given descriptor. Root only.
func (w *world) freshRing(d *ring.Desc, c ringCfg) *ring.Ring {
	r, err := ring.NewWithStoreClientAndStrategy(c.config(true, w.hbTimeout), "fresh", ringKey, &staticKV{desc: d}, ring.NewDefaultReplicationStrategy(), nil, w.logger)
	if err != nil {
		panic(err)
	}
	if err := r.StartAsync(context.Background()); err != nil {
		panic(err)
	}
	w.s.Wait()
	if r.State() != services.Running {
		panic("fresh ring client did not start: " + r.State().String())
	}
	w.fresh = append(w.fresh, r)
	if len(w.fresh) > 4 {
		w.fresh[0].StopAsync()
		w.fresh = w.fresh[1:]
	}
	return r
}

// ---------------------------------------------------------------------------------------------
// reference model of a lookup (written from the statement of C01)

type refResult struct {
	walked  []string // instance ids in walk order (unfiltered)
	healthy []string // sorted ids
	maxErr  int
	err     bool
	empty   bool // no tokens at all
}

type tokOwner struct {
	token uint32
	id    string
}

func ownersOf(d *ring.Desc) (list []tokOwner, dup bool) {
	seen := map[uint32]bool{}
	for id, e := range d.Ingesters {
		for _, t := range e.Tokens {
			if seen[t] {
				dup = true
			}
			seen[t] = true
			list = append(list, tokOwner{t, id})
		}
	}
	sort.Slice(list, func(i, j int) bool {
		if list[i].token != list[j].token {
			return list[i].token < list[j].token
		}
		return list[i].id < list[j].id
	})
	return list, dup
}

func refLookup(d *ring.Desc, key uint32, op opSpec, c ringCfg, hb time.Duration, now time.Time) refResult {
	owners, _ := ownersOf(d)
	if len(owners) == 0 {
		return refResult{empty: true, err: true}
	}
	// first token strictly greater than the key, wrapping around
	start := 0
	found := false
	for i, o := range owners {
		if o.token > key {
			start, found = i, true
			break
		}
	}
	if !found {
		start = 0
	}
	var res refResult
	walked := map[string]bool{}
	zoneCounted := map[string]bool{}
	counted := 0
	for n := 0; n < len(owners) && counted < c.rf; n++ {
		o := owners[(start+n)%len(owners)]
		if walked[o.id] {
			continue
		}
		inst := d.Ingesters[o.id]
		if c.zoneAware && inst.Zone != "" && zoneCounted[inst.Zone] {
			continue // at most one counted instance per zone
		}
		walked[o.id] = true
		res.walked = append(res.walked, o.id)
		if op.extends[inst.State] {
			continue // included, but one further instance is taken for it
		}
		counted++
		if c.zoneAware && inst.Zone != "" {
			zoneCounted[inst.Zone] = true
		}
	}
	for _, id := range res.walked {
		inst := d.Ingesters[id]
		if op.healthy[inst.State] && now.Sub(time.Unix(inst.Timestamp, 0)) <= hb {
			res.healthy = append(res.healthy, id)
		}
	}
	sort.Strings(res.healthy)
	base := c.rf
	if len(res.walked) > base {
		base = len(res.walked)
	}
	majority := base/2 + 1
	if len(res.healthy) < majority {
		res.err = true
		return res
	}
	res.maxErr = len(res.healthy) - majority
	return res
}

func boundaryKeys(d *ring.Desc, limit int) []uint32 {
	set := map[uint32]bool{0: true, 1: true, 0xffffffff: true, 0xfffffffe: true, 1 << 31: true}
	owners, _ := ownersOf(d)
	for _, o := range owners {
		set[o.token] = true
		set[o.token-1] = true
		set[o.token+1] = true
	}
	keys := make([]uint32, 0, len(set))
	for k := range set {
		keys = append(keys, k)
	}
	sort.Slice(keys, func(i, j int) bool { return keys[i] < keys[j] })
	if len(keys) > limit {
		// keep both ends and an even spread
		step := float64(len(keys)-1) / float64(limit-1)
		out := make([]uint32, 0, limit)
		for i := 0; i < limit; i++ {
			out = append(out, keys[int(float64(i)*step)])
		}
		keys = out
	}
	return keys
}

// The four built-in operations as documented (healthy states; states that extend the set), kept
// independent of the implementation's bit tables.
type opSpec struct {
	name    string
	op      ring.Operation
	healthy map[ring.InstanceState]bool
	extends map[ring.InstanceState]bool
}

func stateSet(states ...ring.InstanceState) map[ring.InstanceState]bool {
	m := map[ring.InstanceState]bool{}
	for _, s := range states {
		m[s] = true
	}
	return m
}

var allOps = []opSpec{
	// Write: only ACTIVE is written to; every instance that is not ACTIVE extends the set
	{"Write", ring.Write, stateSet(ring.ACTIVE), stateSet(ring.LEAVING, ring.PENDING, ring.JOINING, ring.LEFT)},
	// WriteNoExtend: like Write, no extension
	{"WriteNoExtend", ring.WriteNoExtend, stateSet(ring.ACTIVE), stateSet()},
	// Read: ACTIVE, PENDING and LEAVING can be read; everything but ACTIVE and LEAVING extends the set
	{"Read", ring.Read, stateSet(ring.ACTIVE, ring.PENDING, ring.LEAVING), stateSet(ring.PENDING, ring.JOINING, ring.LEFT)},
	// Reporting: every state is healthy, nothing extends
	{"Reporting", ring.Reporting, stateSet(ring.ACTIVE, ring.LEAVING, ring.PENDING, ring.JOINING, ring.LEFT), stateSet()},
}

func idsOf(rs ring.ReplicationSet) []string {
	var ids []string
	for _, i := range rs.Instances {
		ids = append(ids, i.Id)
	}
	sort.Strings(ids)
	return ids
}

// try runs f and turns a panic into a violation.
func (w *world) try(what string, f func()) {
	defer func() {
		if r := recover(); r != nil {
			w.s.Fail("panic", "", "%s panicked: %v", what, r)
		}
	}()
	f()
}

// checkLookups compares Ring.Get with the reference walk for every boundary key and operation.
func (w *world) checkLookups(r *ring.Ring, d *ring.Desc, c ringCfg) {
	s := w.s
	if _, dup := ownersOf(d); dup {
		s.Probe("skipped-duplicate-tokens")
		return
	}
	now := time.Now()
	for _, k := range boundaryKeys(d, 48) {
		for _, o := range allOps {
			var rs ring.ReplicationSet
			var err error
			w.try("Ring.Get", func() { rs, err = r.Get(k, o.op, nil, nil, nil) })
			ref := refLookup(d, k, o, c, w.hbTimeout, now)
			got := idsOf(rs)
			switch {
			case ref.err != (err != nil):
				s.Fail("lookup-error-mismatch", "", "Get(%d, %s) rf=%d zoneAware=%v: error=%v, the reference walk %v with healthy %v says error=%v; ring: %s", k, o.name, c.rf, c.zoneAware, err, ref.walked, ref.healthy, ref.err, fmtDesc(d))
			case err != nil:
			case strings.Join(got, ",") != strings.Join(ref.healthy, ","):
				s.Fail("lookup-replicas-mismatch", "", "Get(%d, %s) rf=%d zoneAware=%v returned %v, reference walk %v / healthy %v; ring: %s", k, o.name, c.rf, c.zoneAware, got, ref.walked, ref.healthy, fmtDesc(d))
			case rs.MaxErrors != ref.maxErr:
				s.Fail("lookup-tolerance-mismatch", "", "Get(%d, %s) rf=%d zoneAware=%v tolerates %d errors, the statement gives %d (walked %v, healthy %v)", k, o.name, c.rf, c.zoneAware, rs.MaxErrors, ref.maxErr, ref.walked, ref.healthy)
			}
			if len(ref.walked) >= 3 && (len(ref.healthy) < len(ref.walked) || len(ref.walked) > c.rf) {
				w.lookupNontrivial = true
			}
			s.ProbeN("lookups-compared", 1)
		}
	}
}
