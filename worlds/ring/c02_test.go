package wring

import (
	"context"
	"errors"
	"fmt"
	"sort"
	"strings"
	"time"

	"github.com/grafana/dskit/ring"
	"github.com/grafana/dskit/zzverif/sim"
)

func init() {
	sim.Register("C02", "quorum-intersection", 1, runC02)
}

// runC02: on every ring state reached by the simulated lifecyclers (and ghost entries: token-less,
// PENDING, LEFT, stale instances) both lookups are made by a fresh client at the same frozen instant;
// every minimal acknowledging subset of the write replica set is intersected with every minimal
// answering subset (instances, or whole zones) of the ring-wide read set. On a sample of states the
// same adversarial subsets are played through the real DoBatch and DoUntilQuorum executors
// (read-your-writes).
func runC02(s *sim.Sim) {
	c := ringCfg{rf: s.Range(1, 5, "rf"), zoneAware: s.Chance(0.5, "zone-aware")}
	zones := []string{""}
	if c.zoneAware {
		zones = []string{"a", "b", "c", "d", "e"}[:s.Range(1, 5, "zones")]
	}
	lastVer, lastAt := -1, time.Duration(-1)
	nontrivial := false
	observer := func(w *world) {
		ver := w.store.Version(ringKey)
		if ver == lastVer && s.Elapsed()-lastAt < time.Second {
			return
		}
		lastVer, lastAt = ver, s.Elapsed()
		d := w.desc().Clone().(*ring.Desc)
		if _, dup := ownersOf(d); dup || len(d.Ingesters) == 0 || len(d.Ingesters) > 9 {
			return
		}
		if w.checkQuorumIntersection(d, c) {
			nontrivial = true
		}
	}
	w := runLifecycle(s, lifecycleOpts{kinds: []lcKind{kindClassic, kindBasic}, minActors: 1, maxActors: 5, ghostBudget: 40, ghostIDs: 6, zones: zones, faults: s.Chance(0.5, "with-faults"), ghosts: true, observer: observer, maxVirtual: 4 * time.Minute})
	s.Nontrivial = nontrivial
	s.Note("rf=%d zoneAware=%v zones=%v actors=%d final=%s", c.rf, c.zoneAware, zones, len(w.actors), fmtDesc(w.desc()))
}

// subsetsOfSize enumerates all subsets of ids with exactly k elements.
func subsetsOfSize(ids []string, k int) [][]string {
	var out [][]string
	n := len(ids)
	if k < 0 || k > n {
		return nil
	}
	for mask := 0; mask < 1<<n; mask++ {
		cnt := 0
		for i := 0; i < n; i++ {
			if mask&(1<<i) != 0 {
				cnt++
			}
		}
		if cnt != k {
			continue
		}
		var sub []string
		for i := 0; i < n; i++ {
			if mask&(1<<i) != 0 {
				sub = append(sub, ids[i])
			}
		}
		out = append(out, sub)
	}
	return out
}

func disjoint(a, b []string) bool {
	m := map[string]bool{}
	for _, x := range a {
		m[x] = true
	}
	for _, x := range b {
		if m[x] {
			return false
		}
	}
	return true
}

func (w *world) checkQuorumIntersection(d *ring.Desc, c ringCfg) bool {
	s := w.s
	r := w.freshRing(d, c)
	var read ring.ReplicationSet
	var rerr error
	w.try("GetReplicationSetForOperation", func() { read, rerr = r.GetReplicationSetForOperation(ring.Read) })
	if rerr != nil {
		return false
	}
	// minimal answering subsets of the read set
	var answers [][]string
	readIDs := idsOf(read)
	zoneMode := read.ZoneAwarenessEnabled || read.MaxUnavailableZones > 0
	if zoneMode {
		byZone := map[string][]string{}
		for _, inst := range read.Instances {
			byZone[inst.Zone] = append(byZone[inst.Zone], inst.Id)
		}
		var zs []string
		for z := range byZone {
			zs = append(zs, z)
		}
		sort.Strings(zs)
		need := len(zs) - read.MaxUnavailableZones
		if need < 0 {
			need = 0
		}
		for _, zsel := range subsetsOfSize(zs, need) {
			var ids []string
			for _, z := range zsel {
				ids = append(ids, byZone[z]...)
			}
			answers = append(answers, ids)
		}
	} else {
		answers = subsetsOfSize(readIDs, len(readIDs)-read.MaxErrors)
	}
	nontrivial := false
	played := false
	for _, k := range boundaryKeys(d, 24) {
		var wr ring.ReplicationSet
		var werr error
		w.try("Ring.Get", func() { wr, werr = r.Get(k, ring.Write, nil, nil, nil) })
		if werr != nil {
			continue
		}
		wids := idsOf(wr)
		acks := subsetsOfSize(wids, len(wids)-wr.MaxErrors)
		if wr.MaxErrors > 0 && (read.MaxErrors > 0 || read.MaxUnavailableZones > 0) {
			nontrivial = true
		}
		for _, a := range acks {
			for _, b := range answers {
				s.ProbeN("subset-pairs-intersected", 1)
				if disjoint(a, b) {
					s.Fail("quorum-sets-disjoint", "", "key %d rf=%d zoneAware=%v: the write to %v (tolerance %d) succeeds with acknowledgements from %v and the ring-wide read of %v (MaxErrors %d, MaxUnavailableZones %d) succeeds with answers from %v: no common instance; ring: %s", k, c.rf, c.zoneAware, wids, wr.MaxErrors, a, readIDs, read.MaxErrors, read.MaxUnavailableZones, b, fmtDesc(d))
				}
			}
		}
		// read-your-writes through the real executors, once per state, with adversarial subsets
		if !played && len(acks) > 0 && len(answers) > 0 && s.Chance(0.15, "play-executors") {
			played = true
			a := acks[s.Choose(len(acks), "ack-subset")]
			b := answers[s.Choose(len(answers), "answer-subset")]
			w.playReadYourWrites(r, k, wr, read, a, b, c)
		}
	}
	return nontrivial
}

// playReadYourWrites: DoBatch writes a unique value with exactly the replicas in acked succeeding,
// then DoUntilQuorum reads with exactly the instances in answering succeeding; the read must return
// the value.
func (w *world) playReadYourWrites(r *ring.Ring, key uint32, wr, read ring.ReplicationSet, acked, answering []string, c ringCfg) {
	s := w.s
	w.rywSeq++
	value := fmt.Sprintf("value-%d", w.rywSeq)
	stores := map[string]string{}
	ok := func(list []string, id string) bool {
		for _, x := range list {
			if x == id {
				return true
			}
		}
		return false
	}
	// a replica that does not answer either is down or reports that its handling of the request was cancelled
	var down error = errors.New("replica down")
	if s.Chance(0.4, "failures-are-cancellations") {
		down = fmt.Errorf("replica gave up: %w", context.Canceled)
	}
	var werr, rerr error
	var results []string
	wdone, rdone := false, false
	wcalls := 0
	prefix := fmt.Sprintf("ryw%d-", w.rywSeq)
	s.Go(prefix+"write", func() {
		// the executor works on the replica set that was enumerated (a lookup a few nanoseconds later may see
		// a heartbeat that has just crossed the timeout)
		werr = ring.DoBatchWithOptions(context.Background(), ring.Write, frozenLookup{r, wr}, []uint32{key}, func(inst ring.InstanceDesc, _ []int) error {
			s.Locked(func() { wcalls++ })
			s.Park(prefix + "w-" + inst.Id)
			if !ok(acked, inst.Id) {
				return down
			}
			s.Locked(func() { stores[inst.Id] = value })
			return nil
		}, ring.DoBatchOptions{})
		wdone = true
	})
	w.drainPrefix(prefix)
	if !wdone {
		s.Fail("ryw-write-stuck", "", "DoBatch did not return")
		return
	}
	if werr != nil && wcalls == 0 {
		// the lookup inside DoBatch failed: virtual time moved on by a few nanoseconds since the observation
		// and a heartbeat crossed the timeout
		s.Probe("ryw-skipped-lookup-changed")
		return
	}
	if werr != nil {
		s.Fail("ryw-write-failed", "", "DoBatch failed (%v) although %v of %v acknowledged (tolerance %d)", werr, acked, idsOf(wr), wr.MaxErrors)
		return
	}
	s.Go(prefix+"read", func() {
		results, rerr = ring.DoUntilQuorum(context.Background(), read, ring.DoUntilQuorumConfig{}, func(ctx context.Context, inst *ring.InstanceDesc) (string, error) {
			s.Park(prefix + "r-" + inst.Id)
			if !ok(answering, inst.Id) {
				return "", down
			}
			var v string
			s.Locked(func() { v = stores[inst.Id] })
			return inst.Id + "=" + v, nil
		}, func(string) {})
		rdone = true
	})
	w.drainPrefix(prefix)
	if !rdone {
		s.Fail("ryw-read-stuck", "", "DoUntilQuorum did not return")
		return
	}
	if rerr != nil {
		s.Fail("ryw-read-failed", "", "DoUntilQuorum failed (%v) although %v of %v answered (MaxErrors %d, MaxUnavailableZones %d)", rerr, answering, idsOf(read), read.MaxErrors, read.MaxUnavailableZones)
		return
	}
	for _, res := range results {
		if strings.HasSuffix(res, "="+value) {
			s.Probe("read-your-writes-ok")
			return
		}
	}
	s.Fail("stale-read", "", "key %d: value written with acknowledgements from %v was not returned by the quorum read answered by %v (results %v)", key, acked, answering, results)
}

// frozenLookup answers every key with the replica set computed at the observation instant.
type frozenLookup struct {
	r  *ring.Ring
	rs ring.ReplicationSet
}

func (f frozenLookup) Get(uint32, ring.Operation, []ring.InstanceDesc, []string, []string) (ring.ReplicationSet, error) {
	return ring.ReplicationSet{Instances: append([]ring.InstanceDesc(nil), f.rs.Instances...), MaxErrors: f.rs.MaxErrors, MaxUnavailableZones: f.rs.MaxUnavailableZones, ZoneAwarenessEnabled: f.rs.ZoneAwarenessEnabled}, nil
}
func (f frozenLookup) ReplicationFactor() int { return f.r.ReplicationFactor() }
func (f frozenLookup) InstancesCount() int    { return f.r.InstancesCount() }

// drainPrefix releases the parked tasks whose name starts with prefix until none is left.
func (w *world) drainPrefix(prefix string) {
	s := w.s
	for i := 0; i < 200; i++ {
		s.Wait()
		names := s.ParkedWithPrefix(prefix)
		if len(names) == 0 {
			return
		}
		s.Release(names[s.Choose(len(names), "ryw-order")])
	}
}
