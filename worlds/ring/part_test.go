package wring

// PART scenarios: real PartitionInstanceLifecyclers and a real PartitionRingEditor over one shared
// store (consul in-memory client with the partition-ring codec) seen through the simkv seam, an
// operator writing truthful partitions with small token sets, a virtual clock. Oracles:
//   C15  every committed version: legal state edges, lock, creation state, timing conditions of
//        automatic promotion and of deletion; routing of boundary keys against a reference walk;
//        per-partition replication sets; bounded promotion / deletion once faults stop
//   C14  token ranges of every partition vs. ownership, exact tiling
//   C12  partition shuffle shards: determinism, size, containment, stability, look-back superset

import (
	"context"
	"errors"
	"fmt"
	"sort"
	"strings"
	"time"

	"github.com/grafana/dskit/kv/consul"
	"github.com/grafana/dskit/ring"
	"github.com/grafana/dskit/services"
	"github.com/grafana/dskit/zzverif/sim"
	"github.com/grafana/dskit/zzverif/simkv"
)

func init() {
	sim.Register("C15", "partition-lifecycle", 1, func(s *sim.Sim) { runPart(s, "C15") })
	sim.Register("C14", "partition-ranges", 1, func(s *sim.Sim) { runPart(s, "C14") })
	sim.Register("C12", "partition-shards", 1, func(s *sim.Sim) { runPart(s, "C12") })
}

type plc struct {
	name        string
	cfg         ring.PartitionInstanceLifecyclerConfig
	create      bool
	removeOwner bool
	kv          *simkv.Client
	lc          *ring.PartitionInstanceLifecycler
	started     bool
	stopAsked   bool
	explicit    int // explicit ChangePartitionState calls in flight
	busy        bool
}

type stubInstances struct {
	m map[string]ring.InstanceDesc
}

func (r *stubInstances) GetInstance(id string) (ring.InstanceDesc, error) {
	d, ok := r.m[id]
	if !ok {
		return ring.InstanceDesc{}, ring.ErrInstanceNotFound
	}
	return d, nil
}
func (r *stubInstances) InstancesCount() int { return len(r.m) }

type staticPartReader struct{ r *ring.PartitionRing }

func (s staticPartReader) PartitionRing() *ring.PartitionRing { return s.r }

// switchingPartReader is a watcher whose ring is replaced while a caller is using it: the first call sees
// the older snapshot, every later call the newer one.
type switchingPartReader struct {
	old, cur *ring.PartitionRing
	calls    int
}

func (s *switchingPartReader) PartitionRing() *ring.PartitionRing {
	s.calls++
	if s.calls == 1 {
		return s.old
	}
	return s.cur
}

type partWorld struct {
	*world
	prop      string
	lcs       []*plc
	byName    map[string]*plc
	editor    *ring.PartitionRingEditor
	explicitC map[int]bool // commit seq -> an explicit state change of the writer was in flight
	unixBase  int64

	shardHist   map[string][]partShardRecord
	prevPR      *ring.PartitionRing
	prevPRDesc  *ring.PartitionRingDesc
	prevActive  map[int32]bool
	prevShards  map[string][]int32
	routingHard bool
	rangesHard  bool
	lookbackHit bool
	promoted    int
	deleted     int
	illegalReq  int
}

type partShardRecord struct {
	at      time.Duration
	members []int32
}

func (pw *partWorld) desc() *ring.PartitionRingDesc {
	v, err := pw.store.Inner.Get(context.Background(), partKey)
	if err != nil || v == nil {
		return ring.NewPartitionRingDesc()
	}
	return deepPartDesc(v.(*ring.PartitionRingDesc))
}

var partTiny = []uint32{0, 1, 2, 3, 7, 1 << 31, 0x7fffffff, 0x80000001, 0xfffffffc, 0xfffffffd, 0xfffffffe, 0xffffffff, 1000, 5}

func runPart(s *sim.Sim, prop string) {
	w := newWorld(s)
	inner, closer := consul.NewInMemoryClient(ring.GetPartitionRingCodec(), w.logger, nil)
	s.OnEnd(func() { _ = closer.Close() })
	w.store = simkv.NewStore(s, inner, clonePartDesc)
	pw := &partWorld{world: w, prop: prop, byName: map[string]*plc{}, explicitC: map[int]bool{}, shardHist: map[string][]partShardRecord{}}
	pw.unixBase = time.Now().Unix() - int64(s.Elapsed()/time.Second)
	w.store.OnCommit = func(c *simkv.Commit) {
		if a := pw.byName[c.Writer]; a != nil && a.explicit > 0 {
			s.Locked(func() { pw.explicitC[c.Seq] = true })
		}
		s.Event("  #%d %s: %s", c.Seq, c.Writer, fmtPartDesc(c.Out.(*ring.PartitionRingDesc)))
	}
	pw.editor = ring.NewPartitionRingEditor(partKey, w.store.NewClient("editor"))
	ctx := context.Background()

	// ---- operator-written partitions: small token sets, any state, truthful timestamps ---------------
	usedTok := map[uint32]bool{}
	{
		// the tokens the lifecyclers' partitions will generate are taken
		tmp := ring.NewPartitionRingDesc()
		for id := int32(0); id < 3; id++ {
			tmp.AddPartition(id, ring.PartitionPending, time.Now())
			for _, t := range tmp.Partitions[id].Tokens {
				usedTok[t] = true
			}
		}
	}
	nGhost := sim.Pick(s, "operator-partitions", 0, 0, 1, 2, 3, 5, 8, 16)
	if prop != "C15" && nGhost == 0 {
		nGhost = 3
	}
	init := ring.NewPartitionRingDesc()
	perm := s.Perm(len(partTiny), "tiny-order")
	ti := 0
	for g := 0; g < nGhost; g++ {
		id := int32(10 + g)
		var toks []uint32
		for n := s.Range(1, 3, "ntok"); n > 0; n-- {
			var t uint32
			if ti < len(perm) && s.Chance(0.7, "tiny") {
				t = partTiny[perm[ti]]
				ti++
			} else {
				t = uint32(s.Range(10, 1<<31-1, "tok"))*2 + 1
			}
			if usedTok[t] {
				continue
			}
			usedTok[t] = true
			toks = append(toks, t)
		}
		if len(toks) == 0 {
			continue
		}
		sort.Slice(toks, func(i, j int) bool { return toks[i] < toks[j] })
		st := sim.Pick(s, "ghost-state", ring.PartitionActive, ring.PartitionActive, ring.PartitionInactive, ring.PartitionPending)
		init.Partitions[id] = ring.PartitionDesc{Id: id, Tokens: toks, State: st, StateTimestamp: time.Now().Unix()}
		if s.Chance(0.6, "ghost-owner") {
			init.Owners[fmt.Sprintf("own-%d", g)] = ring.OwnerDesc{OwnedPartition: id, State: ring.OwnerActive, UpdatedTimestamp: time.Now().Unix()}
		}
	}
	if len(init.Partitions) > 0 {
		if err := w.store.Put(partKey, init); err != nil {
			panic(err)
		}
	}

	// ---- operator-written miniature rings (1..3 partitions x 0..3 tokens of the tiny alphabet, any states): the
	// per-version oracles are evaluated on them as well
	if prop == "C14" || prop == "C15" {
		for k := s.Range(4, 16, "miniature-rings"); k > 0; k-- {
			d := ring.NewPartitionRingDesc()
			taken := map[uint32]bool{}
			for pid := int32(0); pid < int32(s.Range(1, 3, "mini-partitions")); pid++ {
				var toks []uint32
				for n := s.Choose(4, "mini-ntok"); n > 0; n-- {
					t := partTiny[s.Choose(len(partTiny), "mini-token")]
					if !taken[t] {
						taken[t] = true
						toks = append(toks, t)
					}
				}
				sort.Slice(toks, func(i, j int) bool { return toks[i] < toks[j] })
				st := sim.Pick(s, "mini-state", ring.PartitionActive, ring.PartitionActive, ring.PartitionInactive, ring.PartitionPending)
				d.Partitions[pid] = ring.PartitionDesc{Id: pid, Tokens: toks, State: st, StateTimestamp: time.Now().Unix()}
			}
			pw.checkVersion(d)
			s.Probe("miniature-ring-checked")
		}
		pw.prevPR, pw.prevPRDesc = nil, nil
	}

	// ---- lifecyclers ---------------------------------------------------------------------------------
	nLC := s.Range(1, 4, "lifecyclers")
	multi := s.Chance(0.4, "multi-partition-ownership")
	for i := 0; i < nLC; i++ {
		a := &plc{name: fmt.Sprintf("ing-%d", i)}
		a.cfg = ring.PartitionInstanceLifecyclerConfig{
			PartitionID:                          int32(s.Choose(3, "partition")),
			InstanceID:                           a.name,
			MultiPartitionOwnership:              multi,
			WaitOwnersCountOnPending:             s.Choose(3, "wait-owners"),
			WaitOwnersDurationOnPending:          sim.Pick(s, "wait-duration", 0, 10*time.Second, 30*time.Second),
			DeleteInactivePartitionAfterDuration: sim.Pick(s, "delete-after", 0, 20*time.Second, 2*time.Minute),
			PollingInterval:                      sim.Pick(s, "polling", time.Second, 5*time.Second),
		}
		a.create = s.Chance(0.8, "create-on-startup")
		a.removeOwner = s.Chance(0.5, "remove-owner-on-shutdown")
		pw.lcs = append(pw.lcs, a)
		pw.byName[a.name] = a
	}
	build := func(a *plc) {
		a.kv = w.store.NewClient(a.name)
		a.lc = ring.NewPartitionInstanceLifecycler(a.cfg, "parts", partKey, a.kv, w.logger, nil)
		a.lc.SetCreatePartitionOnStartup(a.create)
		a.lc.SetRemoveOwnerOnShutdown(a.removeOwner)
		a.started, a.stopAsked = false, false
	}
	for _, a := range pw.lcs {
		build(a)
	}
	s.OnEnd(func() {
		for _, a := range pw.lcs {
			if a.started {
				a.lc.StopAsync()
			}
		}
	})
	faultsOn := s.Chance(0.5, "kv-faults")

	lastVer := -1
	observe := func() {
		pw.checkCommits()
		ver := w.store.Version(partKey)
		if ver == lastVer {
			return
		}
		lastVer = ver
		d := pw.desc()
		pw.checkVersion(d)
	}

	steps := s.Range(20, 120, "steps")
	edits := 0
	for i := 0; i < steps && s.Budget(); i++ {
		s.Wait()
		type alt struct {
			w   int
			run func()
		}
		var alts []alt
		for _, nm := range s.Parked() {
			nm := nm
			alts = append(alts, alt{6, func() { s.Release(nm) }})
		}
		for _, a := range pw.lcs {
			a := a
			switch {
			case !a.started:
				alts = append(alts, alt{3, func() {
					if a.lc.State() != services.New {
						build(a)
					}
					a.started = true
					if err := a.lc.StartAsync(ctx); err != nil {
						panic(err)
					}
					s.Event("%s started (partition %d, create=%v)", a.name, a.cfg.PartitionID, a.create)
				}})
			case !a.stopAsked:
				alts = append(alts, alt{1, func() {
					a.stopAsked = true
					a.lc.StopAsync()
					s.Event("%s asked to stop (remove owner=%v)", a.name, a.removeOwner)
				}})
				if !a.busy && a.lc.State() == services.Running {
					alts = append(alts, alt{2, func() {
						to := sim.Pick(s, "to-state", ring.PartitionActive, ring.PartitionInactive, ring.PartitionPending)
						a.busy = true
						a.explicit++
						s.Go("chg-"+a.name, func() {
							err := a.lc.ChangePartitionState(ctx, to)
							s.Locked(func() { a.explicit--; a.busy = false })
							s.Event("%s ChangePartitionState(%v) -> %v", a.name, to, err)
							pw.checkChangeError(err)
						})
					}})
				}
			default:
				if st := a.lc.State(); st == services.Terminated || st == services.Failed {
					alts = append(alts, alt{2, func() { a.started = false }})
				}
			}
		}
		// the editor
		alts = append(alts, alt{3, func() {
			edits++
			d := pw.desc()
			var pids []int32
			for id := range d.Partitions {
				pids = append(pids, id)
			}
			pids = append(pids, 0, 99)
			sort.Slice(pids, func(i, j int) bool { return pids[i] < pids[j] })
			pid := pids[s.Choose(len(pids), "edit-partition")]
			name := fmt.Sprintf("edit-%d", edits)
			switch s.Choose(4, "edit-kind") {
			case 0, 1:
				to := sim.Pick(s, "to-state", ring.PartitionActive, ring.PartitionInactive, ring.PartitionPending)
				s.Go(name, func() {
					err := pw.editor.ChangePartitionState(ctx, pid, to)
					s.Event("editor ChangePartitionState(%d, %v) -> %v", pid, to, err)
					pw.checkChangeError(err)
				})
			case 2:
				locked := s.Chance(0.6, "lock")
				s.Go(name, func() {
					err := pw.editor.SetPartitionStateChangeLock(ctx, pid, locked)
					s.Event("editor SetPartitionStateChangeLock(%d, %v) -> %v", pid, locked, err)
				})
			default:
				a := pw.lcs[s.Choose(len(pw.lcs), "remove-owner-of")]
				s.Go(name, func() {
					err := pw.editor.RemoveMultiPartitionOwner(ctx, a.name, a.cfg.PartitionID)
					s.Event("editor RemoveMultiPartitionOwner(%s, %d) -> %v", a.name, a.cfg.PartitionID, err)
				})
			}
		}})
		if faultsOn {
			alts = append(alts, alt{1, func() {
				a := pw.lcs[s.Choose(len(pw.lcs), "fault-whom")]
				switch s.Choose(3, "kv-fault") {
				case 0:
					a.kv.ForceRetry = 1 + s.Choose(3, "retries")
				case 1:
					a.kv.AckLostNext = true
				default:
					a.kv.FailFrom, a.kv.FailN = 0, 1+s.Choose(2, "rejected")
				}
			}})
		}
		midWrite := false
		for _, nm := range s.Parked() {
			if strings.Contains(nm, ":f") || strings.Contains(nm, ":cas") {
				midWrite = true // (the lifecycler reads the clock before it calls the store)
			}
		}
		// C12 (look-back "as far as the state change times reveal"): a write whose timestamp was taken before
		// a clock advance and which lands after it would make the ring lie about when the change happened
		if !(prop == "C12" && midWrite) {
			alts = append(alts, alt{5, func() {
				s.Advance(sim.Pick(s, "advance", time.Second, time.Second, 5*time.Second, 11*time.Second, 31*time.Second, 2*time.Minute+time.Second))
			}})
		}
		total := 0
		for _, a := range alts {
			total += a.w
		}
		v := s.Choose(total, "step")
		for _, a := range alts {
			if v < a.w {
				a.run()
				break
			}
			v -= a.w
		}
		s.Wait()
		observe()
	}

	// ---- faults stop; bounded progress ---------------------------------------------------------------
	for _, a := range pw.lcs {
		if a.kv != nil {
			a.kv.ForceRetry, a.kv.AckLostNext, a.kv.FailN = 0, false, 0
		}
	}
	horizon := 3*time.Minute + 10*time.Second
	for end := s.Elapsed() + horizon; s.Elapsed() < end; {
		for i := 0; i < 200 && len(s.Parked()) > 0; i++ {
			s.Release(s.Parked()[0])
		}
		observe()
		s.Advance(time.Second)
	}
	for i := 0; i < 200 && len(s.Parked()) > 0; i++ {
		s.Release(s.Parked()[0])
	}
	observe()
	if prop == "C15" {
		pw.checkProgress()
	}
	d := pw.desc()
	switch prop {
	case "C15":
		s.Nontrivial = len(w.store.Commits) >= 4 && (pw.promoted+pw.deleted > 0 || pw.routingHard)
	case "C14":
		s.Nontrivial = pw.rangesHard
	case "C12":
		s.Nontrivial = pw.lookbackHit
	}
	s.Note("part/%s lifecyclers=%d operator-partitions=%d commits=%d promoted=%d deleted=%d final=%s", prop, nLC, nGhost, len(w.store.Commits), pw.promoted, pw.deleted, fmtPartDesc(d))
	s.State(fmtPartDescNoTime(d))
}

func fmtPartDescNoTime(d *ring.PartitionRingDesc) string {
	var parts []string
	for id, p := range d.Partitions {
		parts = append(parts, fmt.Sprintf("p%d:%v:%v:%d", id, p.State, p.StateChangeLocked, len(p.Tokens)))
	}
	for id, o := range d.Owners {
		parts = append(parts, fmt.Sprintf("%s:p%d", id, o.OwnedPartition))
	}
	sort.Strings(parts)
	return strings.Join(parts, " ")
}

// checkChangeError: a state change request fails only with one of the documented reasons.
func (pw *partWorld) checkChangeError(err error) {
	if err == nil {
		return
	}
	switch {
	case errors.Is(err, ring.ErrPartitionDoesNotExist), errors.Is(err, ring.ErrPartitionStateChangeNotAllowed), errors.Is(err, ring.ErrPartitionStateChangeLocked):
		pw.s.Locked(func() { pw.illegalReq++ })
		pw.s.Probe("state-change-refused:" + strings.SplitN(err.Error(), ":", 2)[0])
	case errors.Is(err, simkv.ErrInjected), strings.Contains(err.Error(), "not running"), strings.Contains(err.Error(), "injected"), strings.Contains(err.Error(), "failed to CAS"):
	default:
		pw.s.Fail("unexpected-change-error", "", "a partition state change failed with an undocumented error: %v", err)
	}
}

var partEdges = map[ring.PartitionState][]ring.PartitionState{
	ring.PartitionPending:  {ring.PartitionActive, ring.PartitionInactive},
	ring.PartitionActive:   {ring.PartitionInactive},
	ring.PartitionInactive: {ring.PartitionActive},
}

func (pw *partWorld) unix(at time.Duration) int64 { return pw.unixBase + int64(at/time.Second) }

// checkCommits examines every version written through a lifecycler or the editor.
func (pw *partWorld) checkCommits() {
	s := pw.s
	for ; pw.checked < len(pw.store.Commits); pw.checked++ {
		c := pw.store.Commits[pw.checked]
		if pw.prop != "C15" {
			continue
		}
		in, _ := c.In.(*ring.PartitionRingDesc)
		out, _ := c.Out.(*ring.PartitionRingDesc)
		if in == nil {
			in = ring.NewPartitionRingDesc()
		}
		if out == nil {
			continue
		}
		writer := pw.byName[c.Writer]
		now := pw.unix(c.At)
		ownersOf := func(d *ring.PartitionRingDesc, pid int32) (n int) {
			for _, o := range d.Owners {
				if o.OwnedPartition == pid {
					n++
				}
			}
			return
		}
		for pid, op := range out.Partitions {
			ip, existed := in.Partitions[pid]
			if !existed {
				if op.State != ring.PartitionPending {
					s.Fail("created-not-pending", "", "commit #%d by %s created partition %d in state %v", c.Seq, c.Writer, pid, op.State)
				}
				continue
			}
			if fmt.Sprint(ip.Tokens) != fmt.Sprint(op.Tokens) {
				s.Fail("partition-tokens-changed", "", "commit #%d by %s changed the tokens of partition %d", c.Seq, c.Writer, pid)
			}
			if ip.State == op.State {
				continue
			}
			s.Probe(fmt.Sprintf("edge:%v->%v", ip.State, op.State))
			legal := false
			for _, to := range partEdges[ip.State] {
				legal = legal || to == op.State
			}
			if !legal {
				s.Fail("illegal-partition-state-edge", fmt.Sprintf("%v->%v", ip.State, op.State), "commit #%d by %s moved partition %d from %v to %v", c.Seq, c.Writer, pid, ip.State, op.State)
			}
			if ip.StateChangeLocked {
				s.Fail("state-changed-while-locked", "", "commit #%d by %s moved partition %d from %v to %v although its state was locked", c.Seq, c.Writer, pid, ip.State, op.State)
			}
			if ip.State == ring.PartitionPending && op.State == ring.PartitionActive && writer != nil && !pw.explicitC[c.Seq] {
				// automatic promotion by a lifecycler: enough owners registered for long enough
				pw.promoted++
				s.Probe("automatic-promotion")
				eligible := 0
				limit := now - int64(writer.cfg.WaitOwnersDurationOnPending/time.Second)
				for _, o := range in.Owners {
					if o.OwnedPartition == pid && o.UpdatedTimestamp < limit {
						eligible++
					}
				}
				if eligible < writer.cfg.WaitOwnersCountOnPending {
					s.Fail("promoted-too-early", "", "commit #%d: %s promoted partition %d to active at %d with %d owners registered before %d (needs %d registered for %v): %s", c.Seq, c.Writer, pid, now, eligible, limit, writer.cfg.WaitOwnersCountOnPending, writer.cfg.WaitOwnersDurationOnPending, fmtPartDesc(in))
				}
				if pid != writer.cfg.PartitionID {
					s.Fail("promoted-foreign-partition", "", "commit #%d: %s (partition %d) promoted partition %d", c.Seq, c.Writer, writer.cfg.PartitionID, pid)
				}
			}
		}
		for pid, ip := range in.Partitions {
			if _, still := out.Partitions[pid]; still {
				continue
			}
			pw.deleted++
			s.Probe("partition-deleted")
			switch {
			case writer == nil:
				s.Fail("partition-deleted-wrongly", "not-a-lifecycler", "commit #%d by %s deleted partition %d", c.Seq, c.Writer, pid)
			case writer.cfg.PartitionID == pid:
				s.Fail("partition-deleted-wrongly", "own-partition", "commit #%d: lifecycler %s deleted its own partition %d: %s", c.Seq, c.Writer, pid, fmtPartDesc(in))
			case writer.cfg.DeleteInactivePartitionAfterDuration <= 0:
				s.Fail("partition-deleted-wrongly", "deletion-disabled", "commit #%d: %s deleted partition %d although deletion is disabled in its configuration", c.Seq, c.Writer, pid)
			case ip.State != ring.PartitionInactive:
				s.Fail("partition-deleted-wrongly", "not-inactive", "commit #%d: %s deleted partition %d in state %v", c.Seq, c.Writer, pid, ip.State)
			case ownersOf(in, pid) > 0:
				s.Fail("partition-deleted-wrongly", "has-owners", "commit #%d: %s deleted partition %d which has %d owners: %s", c.Seq, c.Writer, pid, ownersOf(in, pid), fmtPartDesc(in))
			case ip.StateTimestamp >= now-int64(writer.cfg.DeleteInactivePartitionAfterDuration/time.Second):
				s.Fail("partition-deleted-wrongly", "too-early", "commit #%d: %s deleted partition %d at %d, inactive only since %d (delay %v)", c.Seq, c.Writer, pid, now, ip.StateTimestamp, writer.cfg.DeleteInactivePartitionAfterDuration)
			}
		}
	}
}

// refPartitionForKey: the active partition owning the first token strictly after the key.
func refPartitionForKey(d *ring.PartitionRingDesc, key uint32, onlyActive bool) (int32, bool) {
	type to struct {
		t   uint32
		pid int32
	}
	var all []to
	for pid, p := range d.Partitions {
		for _, t := range p.Tokens {
			all = append(all, to{t, pid})
		}
	}
	if len(all) == 0 {
		return 0, false
	}
	sort.Slice(all, func(i, j int) bool { return all[i].t < all[j].t })
	start := 0
	for start < len(all) && all[start].t <= key {
		start++
	}
	for n := 0; n < len(all); n++ {
		o := all[(start+n)%len(all)]
		if !onlyActive || d.Partitions[o.pid].State == ring.PartitionActive {
			return o.pid, true
		}
	}
	return 0, false
}

func partBoundaryKeys(d *ring.PartitionRingDesc, limit int) []uint32 {
	set := map[uint32]bool{0: true, 1: true, 0xffffffff: true, 0xfffffffe: true, 1 << 31: true}
	for _, p := range d.Partitions {
		toks := p.Tokens
		if len(toks) > 6 {
			toks = append(append([]uint32(nil), toks[:3]...), toks[len(toks)-3:]...)
		}
		for _, t := range toks {
			set[t], set[t-1], set[t+1] = true, true, true
		}
	}
	keys := make([]uint32, 0, len(set))
	for k := range set {
		keys = append(keys, k)
	}
	sort.Slice(keys, func(i, j int) bool { return keys[i] < keys[j] })
	if len(keys) > limit {
		step := float64(len(keys)-1) / float64(limit-1)
		out := make([]uint32, 0, limit)
		for i := 0; i < limit; i++ {
			out = append(out, keys[int(float64(i)*step)])
		}
		keys = out
	}
	return keys
}

func (pw *partWorld) checkVersion(d *ring.PartitionRingDesc) {
	s := pw.s
	dupTok := map[uint32]bool{}
	for _, p := range d.Partitions {
		for _, t := range p.Tokens {
			if dupTok[t] {
				s.Probe("skipped-duplicate-partition-tokens")
				return
			}
			dupTok[t] = true
		}
	}
	var pr *ring.PartitionRing
	var err error
	pw.try("NewPartitionRing", func() { pr, err = ring.NewPartitionRing(*deepPartDesc(d)) })
	if err != nil || pr == nil {
		s.Fail("partition-ring-rejected", "", "a partition ring could not be built from a stored version: %v: %s", err, fmtPartDesc(d))
		return
	}
	switch pw.prop {
	case "C15":
		pw.checkRouting(pr, d)
		pw.checkReplicationSets(pr, d)
	case "C14":
		pw.checkPartRanges(pr, d)
	case "C12":
		pw.checkPartShards(pr, d)
		pw.checkPartShardsOtherStates(d)
	}
}

// checkPartShardsOtherStates: the same content plus partitions that are neither pending, active nor inactive (a
// removal marker as the gossip store keeps it, the zero state, a state value of a newer version): shards are made
// of active partitions only and have the size announced.
func (pw *partWorld) checkPartShardsOtherStates(d *ring.PartitionRingDesc) {
	s := pw.s
	if s.Failed() || !s.Chance(0.3, "shards-with-other-states") {
		return
	}
	d2 := deepPartDesc(d)
	old := time.Now().Add(-48 * time.Hour).Unix()
	for k := s.Range(1, 2, "other-state-partitions"); k > 0; k-- {
		pid := int32(900 + k)
		st := sim.Pick(s, "other-state", ring.PartitionDeleted, ring.PartitionUnknown, ring.PartitionState(7))
		tok := []uint32{uint32(1000*k + 7), uint32(2_000_000_000 + k), 4294967000 + uint32(k)}
		if d2.Partitions == nil {
			d2.Partitions = map[int32]ring.PartitionDesc{}
		}
		d2.Partitions[pid] = ring.PartitionDesc{Id: pid, Tokens: tok, State: st, StateTimestamp: old}
	}
	pr, err := ring.NewPartitionRing(*deepPartDesc(d2))
	if err != nil || pr == nil {
		return
	}
	active := map[int32]bool{}
	for pid, p := range d2.Partitions {
		if p.State == ring.PartitionActive {
			active[pid] = true
		}
	}
	n := len(active)
	for _, id := range []string{"tenant-1", "t2", "t3"} {
		for _, size := range []int{1, 2, 3, n, 0} {
			var sub *ring.PartitionRing
			var err error
			pw.try("PartitionRing.ShuffleShard", func() { sub, err = pr.ShuffleShard(id, size) })
			if err != nil || sub == nil {
				continue
			}
			got := partIDs(sub)
			want := size
			if size <= 0 || size > n {
				want = n
			}
			for _, pid := range got {
				if !active[pid] {
					s.Fail("partition-shard-member-not-active", "other-states", "ShuffleShard(%s, %d) = %v contains partition %d which is in state %v; ring: %s", id, size, got, pid, d2.Partitions[pid].State, fmtPartDesc(d2))
				}
			}
			if len(got) != want {
				s.Fail("partition-shard-size", "other-states", "ShuffleShard(%s, %d) = %v: %d partitions, expected %d of the %d active ones; ring: %s", id, size, got, len(got), want, n, fmtPartDesc(d2))
			}
			s.ProbeN("partition-shards-with-other-states-checked", 1)
		}
	}
}

func (pw *partWorld) checkRouting(pr *ring.PartitionRing, d *ring.PartitionRingDesc) {
	s := pw.s
	keys := partBoundaryKeys(d, 64)
	batch := ring.NewActivePartitionBatchRing(pr)
	nonActive := 0
	for _, p := range d.Partitions {
		if p.State != ring.PartitionActive {
			nonActive++
		}
	}
	wantBy := map[int32][]int{}
	anyErr := false
	for i, k := range keys {
		want, ok := refPartitionForKey(d, k, true)
		var got int32
		var err error
		pw.try("ActivePartitionForKey", func() { got, err = pr.ActivePartitionForKey(k) })
		s.ProbeN("routing-lookups-compared", 1)
		switch {
		case ok != (err == nil):
			s.Fail("routing-error-mismatch", "", "ActivePartitionForKey(%d) error=%v, the reference walk finds an active partition: %v; ring: %s", k, err, ok, fmtPartDesc(d))
		case ok && got != want:
			s.Fail("routing-mismatch", "", "ActivePartitionForKey(%d) = %d, the first active partition after the key is %d; ring: %s", k, got, want, fmtPartDesc(d))
		}
		if ok {
			wantBy[want] = append(wantBy[want], i)
			rs, err := batch.Get(k, ring.Write, nil, nil, nil)
			if err != nil || len(rs.Instances) != 1 || rs.Instances[0].Id != fmt.Sprint(want) {
				s.Fail("routing-mismatch", "batch-ring", "ActivePartitionBatchRing.Get(%d) = %v / %v, want partition %d", k, rs.Instances, err, want)
			}
		} else {
			anyErr = true
		}
	}
	var res []ring.PartitionKeys
	var err error
	pw.try("GetKeysByPartition", func() { res, err = batch.GetKeysByPartition(context.Background(), keys) })
	if anyErr != (err != nil) {
		s.Fail("routing-error-mismatch", "keys-by-partition", "GetKeysByPartition error=%v, reference says an active partition exists: %v", err, !anyErr)
	} else if err == nil {
		got := map[int32][]int{}
		for _, pk := range res {
			got[pk.PartitionID] = append(got[pk.PartitionID], pk.Indexes...)
		}
		if fmt.Sprint(got) != fmt.Sprint(wantBy) {
			s.Fail("routing-mismatch", "keys-by-partition", "GetKeysByPartition groups %v, the reference groups %v; ring: %s", got, wantBy, fmtPartDesc(d))
		}
	}
	if nonActive > 0 && len(d.Partitions)-nonActive > 0 && len(d.Partitions) >= 3 {
		pw.routingHard = true
	}
}

func (pw *partWorld) checkReplicationSets(pr *ring.PartitionRing, d *ring.PartitionRingDesc) {
	s := pw.s
	// an instance ring in which every owner is healthy, unhealthy (old heartbeat / wrong state) or unknown
	inst := &stubInstances{m: map[string]ring.InstanceDesc{}}
	var oids []string
	for id := range d.Owners {
		oids = append(oids, id)
	}
	sort.Strings(oids)
	now := time.Now()
	for _, oid := range oids {
		id := oid
		if p := strings.LastIndexByte(oid, '/'); p >= 0 {
			id = oid[:p]
		}
		if _, done := inst.m[id]; done {
			continue
		}
		e := ring.InstanceDesc{Id: id, Addr: id, Zone: []string{"a", "b"}[len(inst.m)%2], State: ring.ACTIVE, Timestamp: now.Unix()}
		switch s.Choose(5, "owner-health") {
		case 0:
			continue // unknown to the instance ring
		case 1:
			e.Timestamp = now.Add(-2 * pw.hbTimeout).Unix()
		case 2:
			e.State = ring.LEAVING
		}
		inst.m[id] = e
	}
	op := allOps[s.Choose(len(allOps), "rs-op")]
	healthy := func(id string) (ring.InstanceDesc, bool) {
		e, ok := inst.m[id]
		if !ok {
			return e, false
		}
		return e, op.healthy[e.State] && now.Sub(time.Unix(e.Timestamp, 0)) <= pw.hbTimeout
	}
	multi := false
	for oid := range d.Owners {
		if strings.Contains(oid, "/") {
			multi = true
		}
	}
	if !multi {
		pir := ring.NewPartitionInstanceRing(staticPartReader{pr}, inst, pw.hbTimeout)
		var sets []ring.ReplicationSet
		var err error
		pw.try("GetReplicationSetsForOperation", func() { sets, err = pir.GetReplicationSetsForOperation(op.op) })
		expect := func(d *ring.PartitionRingDesc) (want []string, wantErr bool) {
			wantErr = len(d.Partitions) == 0
			var all []string
			for id := range d.Owners {
				all = append(all, id)
			}
			sort.Strings(all)
			for pid := range d.Partitions {
				var ids []string
				zones := map[string]bool{}
				for _, oid := range all {
					if d.Owners[oid].OwnedPartition != pid {
						continue
					}
					if e, ok := healthy(oid); ok {
						ids = append(ids, oid)
						zones[e.Zone] = true
					}
				}
				if len(ids) == 0 {
					wantErr = true
				}
				want = append(want, fmt.Sprintf("%v/%d", ids, len(zones)-1))
			}
			sort.Strings(want)
			return
		}
		render := func(sets []ring.ReplicationSet) string {
			var got []string
			for _, rs := range sets {
				got = append(got, fmt.Sprintf("%v/%d", idsOf(rs), rs.MaxUnavailableZones))
			}
			sort.Strings(got)
			return fmt.Sprint(got)
		}
		want, wantErr := expect(d)
		// the ring is replaced (by the watcher) while a caller computes the sets: the answer describes one snapshot
		if pw.prevPR != nil {
			sw := &switchingPartReader{old: pw.prevPR, cur: pr}
			var sets2 []ring.ReplicationSet
			var err2 error
			pw.try("GetReplicationSetsForOperation", func() {
				sets2, err2 = ring.NewPartitionInstanceRing(sw, inst, pw.hbTimeout).GetReplicationSetsForOperation(op.op)
			})
			wantOld, wantOldErr := expect(pw.prevPRDesc)
			okOld := wantOldErr == (err2 != nil) && (err2 != nil || render(sets2) == fmt.Sprint(wantOld))
			okNew := wantErr == (err2 != nil) && (err2 != nil || render(sets2) == fmt.Sprint(want))
			s.ProbeN("replication-sets-across-ring-replacement", 1)
			if !okOld && !okNew {
				s.Fail("partition-replication-set-mismatch", "mixed-snapshots", "GetReplicationSetsForOperation(%s) while the partition ring was replaced returned %s / %v, which describes neither the ring before (%v, error=%v: %s) nor the ring after (%v, error=%v: %s)", op.name, render(sets2), err2, wantOld, wantOldErr, fmtPartDesc(pw.prevPRDesc), want, wantErr, fmtPartDesc(d))
			}
		}
		pw.prevPR, pw.prevPRDesc = pr, d
		s.ProbeN("replication-sets-compared", 1)
		if wantErr != (err != nil) {
			s.Fail("partition-replication-set-mismatch", "error", "GetReplicationSetsForOperation(%s) error=%v, expected error=%v; ring: %s; instances: %v", op.name, err, wantErr, fmtPartDesc(d), inst.m)
		} else if err == nil {
			var got []string
			for _, rs := range sets {
				got = append(got, fmt.Sprintf("%v/%d", idsOf(rs), rs.MaxUnavailableZones))
			}
			sort.Strings(got)
			if fmt.Sprint(got) != fmt.Sprint(want) {
				s.Fail("partition-replication-set-mismatch", "", "GetReplicationSetsForOperation(%s) = %v, the healthy registered owners per partition are %v; ring: %s", op.name, got, want, fmtPartDesc(d))
			}
		}
		return
	}
	mr := ring.NewMultiPartitionInstanceRing(staticPartReader{pr}, inst, pw.hbTimeout)
	for pid := range d.Partitions {
		var rs ring.ReplicationSet
		var err error
		pw.try("GetReplicationSetForPartitionAndOperation", func() { rs, err = mr.GetReplicationSetForPartitionAndOperation(pid, op.op) })
		healthyOwners := map[string]bool{}
		zones := map[string]bool{}
		for _, oid := range oids {
			if d.Owners[oid].OwnedPartition != pid {
				continue
			}
			id := oid
			if p := strings.LastIndexByte(oid, '/'); p >= 0 {
				id = oid[:p]
			}
			if e, ok := healthy(id); ok {
				healthyOwners[id] = true
				zones[e.Zone] = true
			}
		}
		s.ProbeN("replication-sets-compared", 1)
		if (len(healthyOwners) == 0) != (err != nil) {
			s.Fail("partition-replication-set-mismatch", "multi-error", "GetReplicationSetForPartitionAndOperation(%d, %s) error=%v with healthy owners %v; ring: %s", pid, op.name, err, healthyOwners, fmtPartDesc(d))
			continue
		}
		if err != nil {
			continue
		}
		seenZone := map[string]bool{}
		for _, i := range rs.Instances {
			if !healthyOwners[i.Id] {
				s.Fail("partition-replication-set-mismatch", "multi-member", "GetReplicationSetForPartitionAndOperation(%d, %s) contains %s which is not a healthy registered owner (%v); ring: %s", pid, op.name, i.Id, healthyOwners, fmtPartDesc(d))
			}
			if seenZone[i.Zone] {
				s.Fail("partition-replication-set-mismatch", "multi-zone-twice", "GetReplicationSetForPartitionAndOperation(%d, %s) has two instances of zone %s", pid, op.name, i.Zone)
			}
			seenZone[i.Zone] = true
		}
		if len(seenZone) != len(zones) || rs.MaxUnavailableZones != len(zones)-1 {
			s.Fail("partition-replication-set-mismatch", "multi-zones", "GetReplicationSetForPartitionAndOperation(%d, %s) covers zones %v (tolerates %d), healthy owners live in %v", pid, op.name, seenZone, rs.MaxUnavailableZones, zones)
		}
	}
}

// checkProgress: bounded liveness once faults stopped (the run advanced the clock by more than every configured delay).
func (pw *partWorld) checkProgress() {
	s := pw.s
	d := pw.desc()
	now := time.Now().Unix()
	for _, a := range pw.lcs {
		if !a.started || a.stopAsked || a.lc.State() != services.Running {
			continue
		}
		if p, ok := d.Partitions[a.cfg.PartitionID]; ok && p.State == ring.PartitionPending && !p.StateChangeLocked {
			eligible := 0
			for _, o := range d.Owners {
				if o.OwnedPartition == a.cfg.PartitionID && o.UpdatedTimestamp < now-int64(a.cfg.WaitOwnersDurationOnPending/time.Second)-15 {
					eligible++
				}
			}
			if eligible >= a.cfg.WaitOwnersCountOnPending {
				s.Fail("pending-never-promoted", "", "partition %d is still pending although %s runs fault-free and %d owners (needs %d) have been registered for more than %v: %s", a.cfg.PartitionID, a.name, eligible, a.cfg.WaitOwnersCountOnPending, a.cfg.WaitOwnersDurationOnPending, fmtPartDesc(d))
			}
		}
		if a.cfg.DeleteInactivePartitionAfterDuration > 0 {
			for pid, p := range d.Partitions {
				owners := 0
				for _, o := range d.Owners {
					if o.OwnedPartition == pid {
						owners++
					}
				}
				if pid != a.cfg.PartitionID && p.State == ring.PartitionInactive && owners == 0 && p.StateTimestamp < now-int64(a.cfg.DeleteInactivePartitionAfterDuration/time.Second)-15 {
					s.Fail("inactive-partition-never-deleted", "", "partition %d has no owners and is inactive since %d (now %d), %s runs fault-free with a deletion delay of %v: %s", pid, p.StateTimestamp, now, a.name, a.cfg.DeleteInactivePartitionAfterDuration, fmtPartDesc(d))
				}
			}
		}
	}
}

// ---------------------------------------------------------------------------------------------
// C14: token ranges of partitions

func (pw *partWorld) checkPartRanges(pr *ring.PartitionRing, d *ring.PartitionRingDesc) {
	s := pw.s
	keys := partBoundaryKeys(d, 96)
	allActive := true
	lowHigh := false
	for _, p := range d.Partitions {
		if p.State != ring.PartitionActive {
			allActive = false
		}
		for _, t := range p.Tokens {
			if t == 0 || t == 1 || t == 0xffffffff {
				lowHigh = true
			}
		}
	}
	var covered uint64
	type iv struct{ lo, hi uint32 }
	var all []iv
	for pid := range d.Partitions {
		var tr ring.TokenRanges
		var err error
		pw.try("GetTokenRangesForPartition", func() { tr, err = pr.GetTokenRangesForPartition(pid) })
		if err != nil {
			s.Fail("partition-ranges-error", "", "GetTokenRangesForPartition(%d) failed: %v; ring: %s", pid, err, fmtPartDesc(d))
			continue
		}
		if len(tr)%2 != 0 {
			s.Fail("partition-ranges-malformed", "", "GetTokenRangesForPartition(%d) = %v", pid, tr)
			continue
		}
		for i := 0; i+1 < len(tr); i += 2 {
			if tr[i] > tr[i+1] {
				s.Fail("partition-ranges-malformed", "", "GetTokenRangesForPartition(%d) = %v", pid, tr)
			}
			all = append(all, iv{tr[i], tr[i+1]})
			covered += uint64(tr[i+1]) - uint64(tr[i]) + 1
		}
		for _, k := range keys {
			owner, owned := refPartitionForKey(d, k, false)
			if !owned {
				owner = -1 // a ring without tokens: nobody owns anything
			}
			var inc bool
			pw.try("IncludesKey", func() { inc = tr.IncludesKey(k) })
			s.ProbeN("range-memberships-compared", 1)
			if inc != (owner == pid) {
				s.Fail("partition-ranges-vs-ownership", "", "partition %d reports ranges %v: IncludesKey(%d)=%v, but the key belongs to partition %d; ring: %s", pid, tr, k, inc, owner, fmtPartDesc(d))
			}
			if allActive {
				if got, err := pr.ActivePartitionForKey(k); err == nil && (got == pid) != inc {
					s.Fail("partition-ranges-vs-ownership", "lookup", "partition %d reports ranges %v: IncludesKey(%d)=%v, the lookup routes the key to partition %d; ring: %s", pid, tr, k, inc, got, fmtPartDesc(d))
				}
			}
		}
	}
	anyToken := false
	for _, p := range d.Partitions {
		anyToken = anyToken || len(p.Tokens) > 0
	}
	if anyToken {
		sort.Slice(all, func(i, j int) bool { return all[i].lo < all[j].lo })
		for i := 1; i < len(all); i++ {
			if all[i].lo <= all[i-1].hi {
				s.Fail("partition-ranges-overlap", "", "ranges %v and %v overlap; ring: %s", all[i-1], all[i], fmtPartDesc(d))
			}
		}
		if covered != 1<<32 {
			s.Fail("partition-ranges-do-not-tile", "", "the ranges of all partitions cover %d keys instead of 2^32: %v; ring: %s", covered, all, fmtPartDesc(d))
		}
	}
	if lowHigh && len(d.Partitions) >= 2 {
		pw.rangesHard = true
	}
}

// ---------------------------------------------------------------------------------------------
// C12: partition shuffle shards

func partIDs(r *ring.PartitionRing) []int32 {
	ids := append([]int32(nil), r.PartitionIDs()...)
	sort.Slice(ids, func(i, j int) bool { return ids[i] < ids[j] })
	return ids
}

func (pw *partWorld) checkPartShards(pr *ring.PartitionRing, d *ring.PartitionRingDesc) {
	s := pw.s
	active := map[int32]bool{}
	for pid, p := range d.Partitions {
		if p.State == ring.PartitionActive {
			active[pid] = true
		}
	}
	tenants := []string{"tenant-1", "t2"}
	n := len(active)
	curShards := map[string][]int32{}
	defer func() {
		// one active partition more or less than in the previous version: every shard moves by at most one partition
		if pw.prevActive != nil {
			diff := 0
			for pid := range active {
				if !pw.prevActive[pid] {
					diff++
				}
			}
			for pid := range pw.prevActive {
				if !active[pid] {
					diff++
				}
			}
			if diff == 1 {
				for key, now := range curShards {
					before, ok := pw.prevShards[key]
					if !ok {
						continue
					}
					gone, come := 0, 0
					in := map[int32]bool{}
					for _, pid := range now {
						in[pid] = true
					}
					was := map[int32]bool{}
					for _, pid := range before {
						was[pid] = true
						if !in[pid] {
							gone++
						}
					}
					for _, pid := range now {
						if !was[pid] {
							come++
						}
					}
					s.ProbeN("partition-stability-pairs-compared", 1)
					if gone > 1 || come > 1 {
						s.Fail("partition-shard-not-stable", "", "one active partition was added or removed, ShuffleShard(%s) moved from %v to %v; ring now: %s", key, before, now, fmtPartDesc(d))
					}
				}
			}
		}
		pw.prevActive, pw.prevShards = active, curShards
	}()
	for _, id := range tenants {
		var prev []int32
		for _, size := range []int{1, 2, 3, 4, n, n + 1, 0} {
			var sub, sub2 *ring.PartitionRing
			var err error
			pw.try("PartitionRing.ShuffleShard", func() { sub, err = pr.ShuffleShard(id, size) })
			if err != nil || sub == nil {
				s.Fail("partition-shard-error", "", "ShuffleShard(%s, %d) failed: %v; ring: %s", id, size, err, fmtPartDesc(d))
				continue
			}
			got := partIDs(sub)
			// determinism: a second ring built from the same content
			if fr, err := ring.NewPartitionRing(*deepPartDesc(d)); err == nil {
				sub2, _ = fr.ShuffleShard(id, size)
				if sub2 == nil || fmt.Sprint(partIDs(sub2)) != fmt.Sprint(got) {
					s.Fail("partition-shard-not-deterministic", "", "ShuffleShard(%s, %d) gives %v on one ring and %v on another ring with the same content", id, size, got, sub2)
				}
			}
			want := size
			if size <= 0 || size > n {
				want = n
			}
			for _, pid := range got {
				if !active[pid] {
					s.Fail("partition-shard-member-not-active", "", "ShuffleShard(%s, %d) = %v contains partition %d which is %v; ring: %s", id, size, got, pid, d.Partitions[pid].State, fmtPartDesc(d))
				}
			}
			if len(got) != want {
				s.Fail("partition-shard-size", "", "ShuffleShard(%s, %d) = %v: %d partitions, expected %d of the %d active ones; ring: %s", id, size, got, len(got), want, n, fmtPartDesc(d))
			}
			if pr.ShuffleShardSize(size) != len(got) {
				s.Fail("partition-shard-size", "announced", "ShuffleShardSize(%d) = %d but ShuffleShard(%s, %d) holds %d partitions", size, pr.ShuffleShardSize(size), id, size, len(got))
			}
			if size >= 1 && prev != nil {
				in := map[int32]bool{}
				for _, pid := range got {
					in[pid] = true
				}
				for _, pid := range prev {
					if !in[pid] {
						s.Fail("partition-shard-not-nested", "", "ShuffleShard(%s, %d) = %v does not contain the smaller shard %v; ring: %s", id, size, got, prev, fmtPartDesc(d))
					}
				}
			}
			if size >= 1 {
				prev = got
			}
			if size >= 1 && size <= 4 {
				curShards[fmt.Sprintf("%s/%d", id, size)] = got
			}
			if size >= 1 && size <= 3 {
				key := fmt.Sprintf("%s/%d", id, size)
				pw.shardHist[key] = append(pw.shardHist[key], partShardRecord{at: s.Elapsed(), members: got})
			}
			s.ProbeN("partition-shards-checked", 1)
		}
	}
	// look-back: every partition that was in the shard inside the window and is still registered; fixed windows
	// and windows that start exactly in the second of a recent state change
	now := time.Now()
	periods := []time.Duration{10 * time.Second, time.Minute, 5 * time.Minute}
	extra := map[time.Duration]bool{}
	for _, pid := range partIDs(pr) {
		if p := now.Sub(time.Unix(d.Partitions[pid].StateTimestamp, 0)); p > 0 && p < 10*time.Minute && len(extra) < 3 && !extra[p] {
			extra[p] = true
			periods = append(periods, p)
		}
	}
	for _, id := range tenants {
		for size := 1; size <= 3; size++ {
			key := fmt.Sprintf("%s/%d", id, size)
			for _, lb := range periods {
				var sub *ring.PartitionRing
				var err error
				pw.try("ShuffleShardWithLookback", func() { sub, err = pr.ShuffleShardWithLookback(id, size, lb, now) })
				if err != nil || sub == nil {
					s.Fail("partition-shard-error", "lookback", "ShuffleShardWithLookback(%s, %d, %v) failed: %v", id, size, lb, err)
					continue
				}
				got := map[int32]bool{}
				for _, pid := range partIDs(sub) {
					got[pid] = true
					if d.Partitions[pid].State == ring.PartitionPending {
						s.Fail("partition-shard-member-not-active", "lookback-pending", "ShuffleShardWithLookback(%s, %d, %v) contains the pending partition %d", id, size, lb, pid)
					}
				}
				hist := pw.shardHist[key]
				for i, rec := range hist {
					// the record describes the shard from rec.at until the next record
					until := s.Elapsed()
					if i+1 < len(hist) {
						until = hist[i+1].at
					}
					if until < s.Elapsed()-lb {
						continue
					}
					if i+1 < len(hist) {
						pw.lookbackHit = true
					}
					for _, pid := range rec.members {
						p, still := d.Partitions[pid]
						if !still || p.State == ring.PartitionPending {
							continue
						}
						if !got[pid] {
							s.Fail("partition-lookback-misses-past-member", "", "ShuffleShardWithLookback(%s, %d, %v) at %v = %v misses partition %d (%v since %d) which was in the shard %v until %v; ring: %s", id, size, lb, s.Elapsed(), partIDs(sub), pid, p.State, p.StateTimestamp, rec.members, until, fmtPartDesc(d))
						}
					}
				}
			}
		}
	}
}
