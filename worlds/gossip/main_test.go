package wgossip

import (
	"testing"

	"github.com/grafana/dskit/zzverif/sim"
)

func TestSim(t *testing.T) { sim.Main(t) }
