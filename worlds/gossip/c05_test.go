package wgossip

import (
	"context"
	"errors"
	"fmt"
	"sort"

	"github.com/grafana/dskit/kv"
	"github.com/grafana/dskit/kv/memberlist"
	"github.com/grafana/dskit/ring"
	"github.com/grafana/dskit/services"
)

type staticKV struct{ desc *ring.Desc }

func (k *staticKV) List(context.Context, string) ([]string, error) { return nil, nil }
func (k *staticKV) Get(context.Context, string) (interface{}, error) {
	return k.desc.Clone().(*ring.Desc), nil
}
func (k *staticKV) Delete(context.Context, string) error { return nil }
func (k *staticKV) CAS(context.Context, string, func(interface{}) (interface{}, bool, error)) error {
	return errors.New("read only")
}
func (k *staticKV) WatchKey(ctx context.Context, _ string, _ func(interface{}) bool) { <-ctx.Done() }
func (k *staticKV) WatchPrefix(ctx context.Context, _ string, _ func(string, interface{}) bool) {
	<-ctx.Done()
}

var _ kv.Client = (*staticKV)(nil)

// ringClientSmoke feeds the state a node shows to a ring client and runs the lookups over it: they
// must never report inconsistent token information and never panic.
func (w *gworld) ringClientSmoke(nd *gnode, vis *ring.Desc) {
	s := w.s
	zones := map[string]bool{}
	for _, e := range vis.Ingesters {
		zones[e.Zone] = true
	}
	for _, zoneAware := range []bool{false, true} {
		cfg := ring.Config{HeartbeatTimeout: 10 * 365 * 24 * 3600e9, ReplicationFactor: len(zones), ZoneAwarenessEnabled: zoneAware, SubringCacheDisabled: true}
		if cfg.ReplicationFactor == 0 {
			cfg.ReplicationFactor = 1
		}
		r, err := ring.NewWithStoreClientAndStrategy(cfg, "smoke", ringKey, &staticKV{desc: vis}, ring.NewDefaultReplicationStrategy(), nil, w.logger)
		if err != nil {
			panic(err)
		}
		if err := r.StartAsync(context.Background()); err != nil {
			panic(err)
		}
		s.Wait()
		if r.State() != services.Running {
			s.Fail("ring-client-failed", "", "a ring client could not start on the state node %s shows: %v (%s)", nd.name, r.FailureCase(), canonDesc(vis, true))
			continue
		}
		func() {
			defer func() {
				if rec := recover(); rec != nil {
					s.Fail("panic", "", "lookup over the state of node %s panicked: %v; state: %s", nd.name, rec, canonDesc(vis, true))
				}
			}()
			var keys []uint32
			for _, e := range vis.Ingesters {
				for _, t := range e.Tokens {
					keys = append(keys, t, t-1, t+1)
				}
			}
			keys = append(keys, 0, 0xffffffff)
			sort.Slice(keys, func(i, j int) bool { return keys[i] < keys[j] })
			bad := func(err error, what string) {
				if err != nil && errors.Is(err, ring.ErrInconsistentTokensInfo) {
					s.Fail("inconsistent-tokens-info", "", "%s over the state of node %s reports inconsistent token information; state: %s", what, nd.name, canonDesc(vis, true))
				}
			}
			for _, k := range keys {
				_, err := r.Get(k, ring.Write, nil, nil, nil)
				bad(err, fmt.Sprintf("Get(%d)", k))
			}
			_, err := r.GetReplicationSetForOperation(ring.Read)
			bad(err, "GetReplicationSetForOperation")
			for _, id := range []string{"tenant-a", "tenant-b"} {
				sub := r.ShuffleShard(id, 2)
				_, err := sub.Get(keys[0], ring.Write, nil, nil, nil)
				bad(err, "ShuffleShard.Get")
			}
			for id := range vis.Ingesters {
				_, err := r.GetTokenRangesForInstance(id)
				bad(err, "GetTokenRangesForInstance")
			}
			s.Probe("ring-client-lookups-over-node-state")
		}()
		r.StopAsync()
	}
}

// expectedOwners: for every token claimed by more than one instance that has not left, the owner the
// statement prescribes: an instance that is leaving loses to one that is not, otherwise the smaller
// identifier wins.
func expectedOwners(claims map[string]ring.InstanceDesc) map[uint32]string {
	byToken := map[uint32][]string{}
	for id, e := range claims {
		if e.State == ring.LEFT {
			continue
		}
		seen := map[uint32]bool{}
		for _, t := range e.Tokens {
			if !seen[t] {
				seen[t] = true
				byToken[t] = append(byToken[t], id)
			}
		}
	}
	out := map[uint32]string{}
	for t, ids := range byToken {
		if len(ids) < 2 {
			continue
		}
		sort.Strings(ids)
		winner := ""
		for _, id := range ids { // smallest id that is not leaving
			if claims[id].State != ring.LEAVING {
				winner = id
				break
			}
		}
		if winner == "" {
			winner = ids[0]
		}
		out[t] = winner
	}
	return out
}

// checkCollisionStep evaluates the winner rule on the merge step that created a collision: pre is the
// (clean) state before, in the incoming descriptor, post the state after.
func (w *gworld) checkCollisionStep(nd *gnode, pre, in, post *ring.Desc, what string) {
	if in == nil || post == nil {
		return
	}
	if pre == nil {
		pre = ring.NewDesc()
	}
	claims := map[string]ring.InstanceDesc{}
	for id, e := range pre.Ingesters {
		claims[id] = e
	}
	changedTokens := false
	for id, e := range in.Ingesters {
		cur, ok := claims[id]
		if !ok || e.Timestamp > cur.Timestamp || (e.Timestamp == cur.Timestamp && e.State == ring.LEFT && cur.State != ring.LEFT) {
			if fmt.Sprint(normTokens(e.Tokens)) != fmt.Sprint(cur.Tokens) {
				changedTokens = true
			}
			claims[id] = e
		}
	}
	if !changedTokens {
		return
	}
	for t, want := range expectedOwners(claims) {
		got := ""
		for id, e := range post.Ingesters {
			if e.State == ring.LEFT {
				continue
			}
			for _, x := range e.Tokens {
				if x == t {
					got = id
				}
			}
		}
		w.s.Probe("token-collision-resolved")
		if got != want {
			w.s.Fail("collision-winner", "", "%s on node %s: token %d is claimed by several instances; the rule gives it to %s, the node gave it to %q; before [%s] incoming [%s] after [%s]", what, nd.name, t, want, got, canonDesc(pre, true), canonDesc(in, true), canonDesc(post, true))
		}
	}
}

func normTokens(t []uint32) []uint32 {
	out := append([]uint32(nil), t...)
	sort.Slice(out, func(i, j int) bool { return out[i] < out[j] })
	var d []uint32
	for i, x := range out {
		if i == 0 || x != out[i-1] {
			d = append(d, x)
		}
	}
	return d
}

// decodeRingMsg decodes a gossip message for the ring key (nil if it is for another key / undecodable).
func decodeRingMsg(msg []byte) *ring.Desc {
	var kvp memberlist.KeyValuePair
	if err := kvp.Unmarshal(msg); err != nil || kvp.Key != ringKey {
		return nil
	}
	v, err := ring.GetCodec().Decode(kvp.Value)
	if err != nil {
		return nil
	}
	d, _ := v.(*ring.Desc)
	return d
}
