package wgossip

import (
	"context"
	"regexp"
	"encoding/binary"
	"fmt"
	"os"
	"sort"
	"strings"
	"time"

	"github.com/grafana/dskit/kv/memberlist"
	"github.com/grafana/dskit/services"
	"github.com/grafana/dskit/ring"
	"github.com/grafana/dskit/zzverif/sim"
)

type gopts struct {
	prop       string
	collisions bool // writers draw tokens from a tiny shared alphabet (C05)
	removals   float64
	corrupt    bool
}

func init() {
	sim.Register("C06", "cluster", 4, func(s *sim.Sim) { runGossip(s, gopts{prop: "C06", removals: 0.15, corrupt: true}) })
	sim.Register("C06", "rebroadcast-only", 2, func(s *sim.Sim) { runGossip(s, gopts{prop: "C06-fair", removals: 0.1}) })
	sim.Register("C04", "tombstones", 1, func(s *sim.Sim) { runGossip(s, gopts{prop: "C04", removals: 0.45, corrupt: false}) })
	sim.Register("C05", "token-collisions", 1, func(s *sim.Sim) { runGossip(s, gopts{prop: "C05", collisions: true, removals: 0.15}) })
}

type writer struct {
	id      string
	home    int
	lastTS  int64
	tokens  []uint32
	state   ring.InstanceState
	removed bool
	busy    bool
	ops     int
	pool    []uint32
}

var tinyTokens = []uint32{0, 1, 2, 7, 0xffffffff, 0xfffffffe}

func runGossip(s *sim.Sim, o gopts) {
	n := s.Range(2, 6, "nodes")
	w := newGWorld(s, n)
	w.fair = o.prop == "C06-fair"
	ctx := context.Background()
	nWriters := s.Range(1, 5, "writers")
	var writers []*writer
	for i := 0; i < nWriters; i++ {
		wr := &writer{id: fmt.Sprintf("w%d", i), home: s.Choose(n, "home"), state: ring.ACTIVE}
		if o.collisions {
			wr.pool = tinyTokens
		} else {
			wr.pool = []uint32{uint32(1000*i + 1), uint32(1000*i + 2), uint32(1000*i + 3), uint32(0xfffff000 + i)}
		}
		writers = append(writers, wr)
	}
	nEditors := s.Choose(3, "editors")
	if o.prop == "C04" {
		nEditors = 1 + s.Choose(3, "editors-c04")
	}
	type editor struct {
		id      int
		home    int
		lockHome int
		lastTS  int64
		lockTS  int64
		owner   bool
		created bool
		busy    bool
		state   ring.PartitionState
	}
	var editors []*editor
	for i := 0; i < nEditors; i++ {
		// the state of a partition and its state-change lock are separate last-writer-wins registers: they may be
		// written on different nodes
		editors = append(editors, &editor{id: i, home: s.Choose(n, "editor-home"), lockHome: s.Choose(n, "lock-home"), state: ring.PartitionPending})
	}
	faultsOn := !w.fair && s.Chance(0.8, "faults-enabled")
	usePushPull := !w.fair
	// gossip packet budget: hashicorp/memberlist's default UDP budget is 1400 bytes; a broadcast that does
	// not fit is never gossiped (only push/pull carries it), so the quiescence phase uses a large budget
	packetLimit := sim.Pick(s, "packet-limit", 1400, 65536, 300, 65536)
	if w.fair {
		packetLimit = 65536
	}

	collisionsResolved := 0
	lateDelivered := false
	dropped, healed := 0, 0
	type ackedLock struct {
		ts        int64
		val       bool
		node, inc int
	}
	ackedLocks := map[int32]ackedLock{} // partition -> last acknowledged lock change (on a node that was not restarted since)
	acked := map[string]int64{}  // entry id -> highest acknowledged timestamp (on a node that was not restarted afterwards)
	ackNode := map[string]int{} // and the node (with incarnation) that acknowledged it
	ackInc := map[string]int{}

	// ---- per-step oracles -------------------------------------------------------------------------
	checkNode := func(nd *gnode, what string) {
		if !nd.alive {
			return
		}
		raw, _ := nd.raw(ringKey).(*ring.Desc)
		vis, _ := nd.visible(ringKey).(*ring.Desc)
		// C06 "a queued update is superseded only by an update that contains it": every change a node accepts is
		// queued for (re)broadcast and leaves the queue only after it was handed out or when a queued update that
		// contains it took its place; hence, whenever both queues are empty, somebody who has heard everything the
		// node has said knows everything the node stores.
		if l, g := nd.kv.SimQueued(); l == 0 && g == 0 && nd.kv.State() == services.Running {
			for _, key := range []string{ringKey, ring2Key, partKey} {
				if news := nd.unsaid(key); len(news) > 0 {
					s.Fail("stored-news-never-broadcast", "", "after %s: the broadcast queues of node %s are empty, yet what it stores under %q holds news about %v for a listener of all its %s broadcasts; stored: %s; said so far: %s", what, nd.name, key, news, nd.name, nd.rawCanon(key), canonValue(nd.emitted[key], true))
				}
			}
			s.Probe("said-vs-stored-compared")
		}
		// readers never see tombstones
		if vis != nil {
			for id, e := range vis.Ingesters {
				if e.State == ring.LEFT {
					s.Fail("tombstone-visible", "", "after %s: node %s shows the removed entry %s to readers: %s", what, nd.name, id, canonDesc(vis, true))
				}
			}
		}
		if pv, _ := nd.visible(partKey).(*ring.PartitionRingDesc); pv != nil {
			for id, p := range pv.Partitions {
				if p.State == ring.PartitionDeleted {
					s.Fail("tombstone-visible", "", "after %s: node %s shows deleted partition %d to readers", what, nd.name, id)
				}
			}
			for id, ow := range pv.Owners {
				if ow.State == ring.OwnerDeleted {
					s.Fail("tombstone-visible", "", "after %s: node %s shows deleted owner %s to readers", what, nd.name, id)
				}
			}
		}
		// C04 for partitions and owners. An editor may legitimately create the entry anew after its removal;
		// such a write carries a timestamp later than the tombstone's (all nodes share one clock here and the
		// tombstone is stamped with the removal time), so a live entry at or below the tombstone's timestamp
		// can only come from a message produced before the removal.
		if praw, _ := nd.raw(partKey).(*ring.PartitionRingDesc); praw == nil {
			nd.ptomb = map[string]int64{}
		} else {
			nowSec := time.Now().Unix()
			retention := int64(w.leftTimeout/time.Second) - 2
			for _, id := range sortedPtomb(nd.ptomb) {
				ts := nd.ptomb[id]
				var live, present bool
				var curTS int64
				if strings.HasPrefix(id, "p") {
					var pid int32
					fmt.Sscanf(id, "p%d", &pid)
					if p, ok := praw.Partitions[pid]; ok {
						present, live, curTS = true, p.State != ring.PartitionDeleted, p.StateTimestamp
					}
				} else if ow, ok := praw.Owners[id]; ok {
					present, live, curTS = true, ow.State != ring.OwnerDeleted, ow.UpdatedTimestamp
				}
				switch {
				case present && !live:
				case present && curTS > ts:
					delete(nd.ptomb, id)
					s.Probe("partition-entry-recreated-after-removal")
				case present && nowSec-ts >= retention:
					delete(nd.ptomb, id)
					s.Probe("reappeared-after-retention")
				case present:
					s.Fail("entry-resurrected", "", "after %s: node %s held the tombstone of %s stamped %d, now the entry is back with timestamp %d: %s (now %d, retention %v)", what, nd.name, id, ts, curTS, canonPartDesc(praw, true), nowSec, w.leftTimeout)
				default:
					if nowSec-ts < retention {
						s.Fail("tombstone-discarded-early", "", "after %s: node %s dropped the tombstone of %s (stamped %d) at %d, retention %v", what, nd.name, id, ts, nowSec, w.leftTimeout)
					}
					delete(nd.ptomb, id)
					s.Probe("tombstone-garbage-collected")
				}
			}
			for pid, p := range praw.Partitions {
				if p.State == ring.PartitionDeleted {
					nd.ptomb[fmt.Sprintf("p%d", pid)] = p.StateTimestamp
				}
			}
			for id, ow := range praw.Owners {
				if ow.State == ring.OwnerDeleted {
					nd.ptomb[id] = ow.UpdatedTimestamp
				}
			}
		}
		if raw == nil {
			nd.tomb = map[string]bool{}
			return
		}
		if nd.firstVal == nil {
			nd.firstVal = map[string]int64{}
			for id, e := range raw.Ingesters {
				nd.firstVal[id] = e.Timestamp
			}
		}
		now := time.Now()
		// C04: no resurrection while the tombstone is retained; tombstones leave only after the retention
		for id := range nd.tomb {
			e, ok := raw.Ingesters[id]
			switch {
			case ok && e.State == ring.LEFT:
			case ok && w.removedAt[id] > 0 && s.Elapsed()-w.removedAt[id] >= w.leftTimeout-2*time.Second:
				// the tombstone was old enough to be discarded; what happens afterwards is outside the statement
				delete(nd.tomb, id)
				s.Probe("reappeared-after-retention")
			case ok:
				s.Fail("entry-resurrected", "", "after %s: node %s held the tombstone of %s, now the entry is back as %s (removed at %v, now %v, retention %v)", what, nd.name, id, canonInst(id, e), w.removedAt[id], s.Elapsed(), w.leftTimeout)
			default:
				if at, known := w.removedAt[id]; known && s.Elapsed()-at < w.leftTimeout-2*time.Second {
					s.Fail("tombstone-discarded-early", "", "after %s: node %s dropped the tombstone of %s only %v after the removal (retention %v)", what, nd.name, id, s.Elapsed()-at, w.leftTimeout)
				}
				delete(nd.tomb, id)
				s.Probe("tombstone-garbage-collected")
			}
		}
		for id, e := range raw.Ingesters {
			if e.State == ring.LEFT {
				nd.tomb[id] = true
				if len(e.Tokens) != 0 {
					s.Fail("tombstone-with-tokens", "", "node %s: tombstone of %s carries tokens %v", nd.name, id, e.Tokens)
				}
				_ = now
			}
		}
		// C05: one owner per token, sorted duplicate-free token lists
		owner := map[uint32]string{}
		for _, id := range sortedKeys(raw.Ingesters) {
			e := raw.Ingesters[id]
			for i, t := range e.Tokens {
				if i > 0 && e.Tokens[i-1] >= t {
					// known finding: the value that creates a key on a node is stored as it came, without the
					// normalisation every later merge applies (the entry is still the one of that first value)
					key := ""
					if ts, ok := nd.firstVal[id]; ok && ts == e.Timestamp {
						key = "first-value-of-key"
					}
					if !s.Fail("tokens-not-sorted-distinct", key, "after %s: node %s stores %s with tokens %v", what, nd.name, id, e.Tokens) {
						break
					}
				}
				if e.State == ring.LEFT {
					continue
				}
				if other, dup := owner[t]; dup {
					s.Fail("token-held-twice", "", "after %s: on node %s token %d is held by %s and %s: %s", what, nd.name, t, other, id, canonDesc(raw, true))
				}
				owner[t] = id
			}
		}
	}
	checkAll := func(what string) {
		for _, nd := range w.nodes {
			checkNode(nd, what)
		}
	}
	// ring clients over what each node shows must never report inconsistent token information / panic
	lookupCheck := func() {
		for _, nd := range w.nodes {
			if !nd.alive {
				continue
			}
			vis, _ := nd.visible(ringKey).(*ring.Desc)
			if vis == nil || len(vis.Ingesters) == 0 {
				continue
			}
			w.ringClientSmoke(nd, vis)
		}
	}

	// ---- workload actions --------------------------------------------------------------------------
	writerOp := func(wr *writer) {
		nd := w.nodes[wr.home]
		if !nd.alive || wr.busy || wr.removed {
			return
		}
		kind := "heartbeat"
		switch {
		case wr.ops == 0:
			kind = "register"
		case s.Chance(o.removals, "unregister"):
			kind = "unregister"
		case s.Chance(0.3, "change-state"):
			kind = "state"
		case s.Chance(0.3, "change-tokens"):
			kind = "tokens"
			if s.Chance(0.4, "grow-in-place") {
				kind = "grow" // like verifyTokens: append to the token list the store handed out, sort, publish
			}
		}
		growTok := wr.pool[s.Choose(len(wr.pool), "grow-token")]
		newState := []ring.InstanceState{ring.ACTIVE, ring.LEAVING, ring.PENDING, ring.JOINING}[s.Choose(4, "state")]
		var newTokens []uint32
		for _, t := range wr.pool {
			if s.Chance(0.4, "token") {
				newTokens = append(newTokens, t)
			}
		}
		sort.Slice(newTokens, func(i, j int) bool { return newTokens[i] < newTokens[j] })
		if s.Prop == "C05" && len(newTokens) >= 2 && s.Chance(0.25, "messy-token-list") {
			// a writer may hand over its tokens unsorted and with repetitions: what replicas store is sorted and duplicate-free
			for i, j := 0, len(newTokens)-1; i < j; i, j = i+1, j-1 {
				newTokens[i], newTokens[j] = newTokens[j], newTokens[i]
			}
			newTokens = append(newTokens, newTokens[0])
			s.Probe("unsorted-duplicated-tokens-written-locally")
		}
		wr.busy = true
		wr.ops++
		inc := nd.incarnation
		s.Go("op-"+wr.id, func() {
			var ts int64
			declined := false
			pendingState, pendingTokens := wr.state, wr.tokens
			err := nd.ringCl.CAS(ctx, ringKey, func(in interface{}) (interface{}, bool, error) {
				d := ring.GetOrCreateRingDesc(in)
				if d.Ingesters == nil {
					d.Ingesters = map[string]ring.InstanceDesc{}
				}
				now := time.Now().Unix()
				declined = false
				switch kind {
				case "unregister":
					if _, ok := d.Ingesters[wr.id]; !ok {
						declined = true
						return nil, false, nil
					}
					delete(d.Ingesters, wr.id)
					ts = now
				default:
					e, ok := d.Ingesters[wr.id]
					if !ok {
						e = ring.InstanceDesc{Id: wr.id, Addr: wr.id + ":1", Zone: []string{"a", "b"}[len(wr.id)%2], RegisteredTimestamp: now}
					}
					if now <= wr.lastTS {
						// one content per entry and timestamp: the writer publishes at most once per second
						declined = true
						return nil, false, nil
					}
					// like a lifecycler, the writer publishes what it remembers, not what the store happens to hold
					// (its node may have been restarted and repopulated with older data)
					e.State, e.Tokens = wr.state, append([]uint32(nil), wr.tokens...)
					switch kind {
					case "state":
						e.State = newState
					case "tokens", "register":
						e.Tokens = append([]uint32(nil), newTokens...)
					case "grow":
						if stored, ok := d.Ingesters[wr.id]; ok && fmt.Sprint(stored.Tokens) == fmt.Sprint(wr.tokens) {
							// Clone() shares the token storage with the store ("must be treated as read-only"): only a token
							// larger than all present ones is appended, so nothing the store can see is rewritten
							if n := len(stored.Tokens); n == 0 || growTok > stored.Tokens[n-1] {
								e.Tokens = append(stored.Tokens, growTok) // may share storage with what the store handed out
								s.Probe("tokens-grown-in-place")
							}
						}
					}
					e.Timestamp = now
					ts = e.Timestamp
					d.Ingesters[wr.id] = e
					pendingState, pendingTokens = e.State, e.Tokens
				}
				s.Event("%s %s f: now=%d -> %s", wr.id, kind, now, canonDesc(d, true))
				s.Park("op-" + wr.id + ":f")
				return d, true, nil
			})
			s.Locked(func() {
				wr.busy = false
				if err == nil && !declined {
					if ts > wr.lastTS {
						wr.lastTS = ts
					}
					wr.state, wr.tokens = pendingState, pendingTokens
					if kind == "unregister" {
						wr.removed = true
						w.removedAt[wr.id] = s.Elapsed()
						s.Probe("entry-unregistered")
						if raw, _ := nd.raw(ringKey).(*ring.Desc); raw != nil && nd.alive && nd.incarnation == inc {
							if e, ok := raw.Ingesters[wr.id]; !ok || e.State != ring.LEFT || e.Timestamp < ts {
								s.Fail("tombstone-not-stamped-with-removal-time", "instance", "node %s unregistered %s at %d; it now stores %s (present=%v)", nd.name, wr.id, ts, canonInst(wr.id, e), ok)
							}
						}
					}
					if nd.alive && nd.incarnation == inc {
						acked[wr.id], ackNode[wr.id], ackInc[wr.id] = ts, nd.idx, inc
					}
				}
			})
			s.Event("%s %s on %s -> %v (declined=%v ts=%d)", wr.id, kind, nd.name, err, declined, ts)
		})
	}
	// the same instances also register in a second ring (same ids under another key)
	acked2 := map[string]int64{}
	ack2Node, ack2Inc := map[string]int{}, map[string]int{}
	last2 := map[string]int64{}
	busy2 := map[string]bool{}
	ring2Op := func(wr *writer) {
		nd := w.nodes[wr.home]
		if !nd.alive || busy2[wr.id] {
			return
		}
		busy2[wr.id] = true
		inc := nd.incarnation
		s.Go("op2-"+wr.id, func() {
			var ts int64
			declined := false
			err := nd.ringCl.CAS(ctx, ring2Key, func(in interface{}) (interface{}, bool, error) {
				d := ring.GetOrCreateRingDesc(in)
				if d.Ingesters == nil {
					d.Ingesters = map[string]ring.InstanceDesc{}
				}
				now := time.Now().Unix()
				declined = now <= last2[wr.id]
				if declined {
					return nil, false, nil
				}
				d.Ingesters[wr.id] = ring.InstanceDesc{Id: wr.id, Addr: wr.id + ":2", Zone: "a", State: ring.ACTIVE, Timestamp: now, RegisteredTimestamp: 1}
				ts = now
				s.Park("op2-" + wr.id + ":f")
				return d, true, nil
			})
			s.Locked(func() {
				busy2[wr.id] = false
				if err == nil && !declined {
					last2[wr.id] = ts
					if nd.alive && nd.incarnation == inc {
						acked2[wr.id], ack2Node[wr.id], ack2Inc[wr.id] = ts, nd.idx, inc
					}
					s.Probe("second-ring-heartbeat")
				}
			})
		})
	}
	// a key that lives for a while and is then deleted: full-state exchanges carry its deletion marker
	auxHome := s.Choose(n, "aux-home")
	auxWrites, auxDeleted, auxBusy := 0, false, false
	auxOp := func() {
		nd := w.nodes[auxHome]
		if !nd.alive || auxBusy || auxDeleted {
			return
		}
		auxBusy = true
		del := auxWrites >= 1 && s.Chance(0.4, "delete-aux-key")
		s.Go("aux", func() {
			var err error
			if del {
				err = nd.ringCl.Delete(ctx, auxKey)
			} else {
				err = nd.ringCl.CAS(ctx, auxKey, func(in interface{}) (interface{}, bool, error) {
					d := ring.GetOrCreateRingDesc(in)
					if d.Ingesters == nil {
						d.Ingesters = map[string]ring.InstanceDesc{}
					}
					d.Ingesters[fmt.Sprintf("aux-%d", auxWrites)] = ring.InstanceDesc{Id: fmt.Sprintf("aux-%d", auxWrites), Addr: "aux", State: ring.ACTIVE, Timestamp: time.Now().Unix()}
					return d, true, nil
				})
			}
			s.Locked(func() {
				auxBusy = false
				if err == nil && del {
					auxDeleted = true
					s.Probe("aux-key-deleted")
				} else if err == nil {
					auxWrites++
				}
			})
		})
	}
	forget := func() {
		// the operator forgets an instance on some node that currently shows it
		var cands []*writer
		for _, wr := range writers {
			if !wr.removed && !wr.busy && wr.ops > 0 {
				cands = append(cands, wr)
			}
		}
		if len(cands) == 0 {
			return
		}
		wr := cands[s.Choose(len(cands), "forget-whom")]
		var nodes []*gnode
		for _, nd := range w.nodes {
			if nd.alive {
				if d, _ := nd.visible(ringKey).(*ring.Desc); d != nil {
					if _, ok := d.Ingesters[wr.id]; ok {
						nodes = append(nodes, nd)
					}
				}
			}
		}
		if len(nodes) == 0 {
			return
		}
		nd := nodes[s.Choose(len(nodes), "forget-where")]
		wr.removed = true // the instance is gone: it never writes again
		s.Fault("operator-forget")
		// the same update may also register entries nobody has seen before (an operator replacing an instance):
		// the removal must leave its tombstone whatever else the update carries
		replacements := 0
		if s.Chance(0.4, "forget-and-register") {
			replacements = s.Range(1, 3, "replacements")
		}
		inc := nd.incarnation
		s.Go("forget-"+wr.id, func() {
			declined := false
			err := nd.ringCl.CAS(ctx, ringKey, func(in interface{}) (interface{}, bool, error) {
				d := ring.GetOrCreateRingDesc(in)
				declined = false
				if _, ok := d.Ingesters[wr.id]; !ok {
					declined = true
					return nil, false, nil
				}
				delete(d.Ingesters, wr.id)
				now := time.Now().Unix()
				for k := 0; k < replacements; k++ {
					id := fmt.Sprintf("r%d-%s", k, wr.id)
					d.Ingesters[id] = ring.InstanceDesc{Id: id, Addr: id + ":1", Zone: "a", State: ring.PENDING, Timestamp: now, RegisteredTimestamp: now}
				}
				return d, true, nil
			})
			if err == nil && !declined {
				s.Locked(func() { w.removedAt[wr.id] = s.Elapsed() })
				s.Probe("entry-forgotten")
				if replacements > 0 {
					s.Probe("forgotten-and-others-registered-in-one-update")
				}
				if nd.alive && nd.incarnation == inc {
					// the node that acknowledged the removal holds the tombstone and shows the entry to nobody
					raw, _ := nd.raw(ringKey).(*ring.Desc)
					if raw != nil {
						if e, ok := raw.Ingesters[wr.id]; !ok || e.State != ring.LEFT {
							s.Fail("removal-left-no-tombstone", "", "node %s acknowledged the removal of %s (same update registered %d new entries); it now stores %s (present=%v)", nd.name, wr.id, replacements, canonInst(wr.id, e), ok)
						}
					}
					if vis, _ := nd.visible(ringKey).(*ring.Desc); vis != nil {
						if _, ok := vis.Ingesters[wr.id]; ok {
							s.Fail("removed-entry-still-shown", "", "node %s acknowledged the removal of %s and still shows it to readers", nd.name, wr.id)
						}
					}
				}
			}
		})
	}
	editorOp := func(ed *editor) {
		kind := sim.Pick(s, "editor-op", 0, 1, 2, 3, 4, 5, 2, 0)
		nd := w.nodes[ed.home]
		if kind == 2 {
			nd = w.nodes[ed.lockHome]
		}
		if !nd.alive || ed.busy {
			return
		}
		ed.busy = true
		ownerID := fmt.Sprintf("o%d", ed.id)
		inc := nd.incarnation
		s.Go(fmt.Sprintf("edit-%d", ed.id), func() {
			var ts int64
			var key string
			declined := false
			removedOwner, removedPart := false, false
			var fUnix int64
			var lockTS int64
			var lockVal bool
			err := nd.partCl.CAS(ctx, partKey, func(in interface{}) (interface{}, bool, error) {
				d := ring.GetOrCreatePartitionRingDesc(in)
				now := time.Now()
				fUnix = now.Unix()
				declined = false
				ts, key = 0, ""
				removedOwner, removedPart = false, false
				pid := int32(ed.id)
				switch {
				case !d.HasPartition(pid) && kind == 2:
					declined = true // the lock writer never creates the partition
					return nil, false, nil
				case !d.HasPartition(pid):
					if now.Unix() <= ed.lastTS {
						declined = true
						return nil, false, nil
					}
					d.AddPartition(pid, ring.PartitionPending, now)
					ts, key = now.Unix(), fmt.Sprintf("p%d", pid)
				case kind <= 1:
					if now.Unix() <= ed.lastTS {
						declined = true
						return nil, false, nil
					}
					st := []ring.PartitionState{ring.PartitionActive, ring.PartitionInactive}[kind]
					if changed, _ := d.UpdatePartitionState(pid, st, now); !changed {
						declined = true
						return nil, false, nil
					}
					ts, key = now.Unix(), fmt.Sprintf("p%d", pid)
				case kind == 2:
					if now.Unix() <= ed.lockTS {
						declined = true
						return nil, false, nil
					}
					p := d.Partitions[pid]
					if !d.UpdatePartitionStateChangeLock(pid, !p.StateChangeLocked, now) {
						declined = true
						return nil, false, nil
					}
					ed.lockTS = now.Unix()
					lockTS, lockVal = now.Unix(), !p.StateChangeLocked
				case kind == 3:
					if cur, ok := d.Owners[ownerID]; ok && now.Unix() <= cur.UpdatedTimestamp {
						declined = true
						return nil, false, nil
					}
					if !d.AddOrUpdateOwner(ownerID, ring.OwnerActive, pid, now) {
						declined = true
						return nil, false, nil
					}
					ts, key = now.Unix(), ownerID
				case kind == 5:
					if !s.Chance(o.removals, "remove-partition") {
						declined = true
						return nil, false, nil
					}
					d.RemovePartition(pid)
					removedPart = true
					ts, key = now.Unix(), fmt.Sprintf("p%d", pid)
				default:
					if !d.HasOwner(ownerID) {
						declined = true
						return nil, false, nil
					}
					d.RemoveOwner(ownerID)
					removedOwner = true
				}
				s.Park(fmt.Sprintf("edit-%d:f", ed.id))
				return d, true, nil
			})
			s.Locked(func() {
				ed.busy = false
				if err == nil && !declined && removedOwner {
					w.removedAt[ownerID] = s.Elapsed()
					s.Probe("owner-removed")
				}
				if err == nil && !declined && removedPart {
					w.removedAt[fmt.Sprintf("p%d", ed.id)] = s.Elapsed()
					s.Probe("partition-removed")
				}
				// the tombstone left by a local removal carries the time of the removal, not the entry's last update
				if err == nil && !declined && (removedOwner || removedPart) && nd.alive && nd.incarnation == inc {
					if praw, _ := nd.raw(partKey).(*ring.PartitionRingDesc); praw != nil {
						if ow, ok := praw.Owners[ownerID]; removedOwner && (!ok || ow.State != ring.OwnerDeleted || ow.UpdatedTimestamp < fUnix) {
							s.Fail("tombstone-not-stamped-with-removal-time", "owner", "node %s removed owner %s at %d; it now stores %+v (present=%v)", nd.name, ownerID, fUnix, ow, ok)
						}
						if p, ok := praw.Partitions[int32(ed.id)]; removedPart && (!ok || p.State != ring.PartitionDeleted || p.StateTimestamp < fUnix) {
							s.Fail("tombstone-not-stamped-with-removal-time", "partition", "node %s removed partition %d at %d; it now stores state=%v ts=%d (present=%v)", nd.name, ed.id, fUnix, p.State, p.StateTimestamp, ok)
						}
					}
				}
				if err == nil && !declined && lockTS > 0 && nd.alive && nd.incarnation == inc {
					ackedLocks[int32(ed.id)] = ackedLock{ts: lockTS, val: lockVal, node: nd.idx, inc: inc}
					s.Probe("lock-change-acknowledged")
				}
				if err == nil && !declined && key != "" {
					if strings.HasPrefix(key, "p") && ts > ed.lastTS {
						ed.lastTS = ts
					}
					if nd.alive && nd.incarnation == inc {
						acked[key], ackNode[key], ackInc[key] = ts, nd.idx, inc
					}
				}
			})
		})
	}
	addWatcher := func() {
		var alive []*gnode
		for _, nd := range w.nodes {
			if nd.alive {
				alive = append(alive, nd)
			}
		}
		nd := alive[s.Choose(len(alive), "watch-node")]
		key := []string{ringKey, partKey}[s.Choose(2, "watch-key")]
		gw := &gwatch{node: nd, key: key, name: fmt.Sprintf("watch-%s-%d", nd.name, len(nd.watchers))}
		cctx, cancel := context.WithCancel(ctx)
		gw.cancel = cancel
		nd.watchers = append(nd.watchers, gw)
		cl := nd.ringCl
		if key == partKey {
			cl = nd.partCl
		}
		s.GoNow(gw.name, func() {
			cl.WatchKey(cctx, key, func(v interface{}) bool {
				s.Event("%s <- [%s]", gw.name, canonValue(v, true))
				s.Locked(func() {
					gw.calls++
					gw.last = canonValue(v, false)
					if t := canonValue(v, true); t != gw.last {
						gw.sawTomb = t
					}
				})
				return true
			})
		})
		s.Wait()
	}

	// ---- network actions ---------------------------------------------------------------------------
	sendGossip := func(from, to int) {
		p := w.gossipPacket(from, to, packetLimit)
		if p == nil {
			return
		}
		s.Probe("gossip-packet")
		if !w.connected(from, to) {
			dropped++
			s.Fault("msg-dropped-partition")
			return
		}
		if faultsOn {
			switch k := s.Choose(20, "net-fault"); {
			case k == 0:
				dropped++
				s.Fault("msg-dropped")
				return
			case k == 1:
				s.Fault("msg-duplicated")
				w.inflight = append(w.inflight, p)
			case k == 2 || k == 3:
				s.Fault("msg-delayed")
				w.inflight = append(w.inflight, p)
				return
			case k == 4 && o.corrupt:
				// a damaged copy arrives as well: it must be inert
				for _, m := range p.msgs {
					bad := corrupt(m, s.Choose(5, "corrupt-mode"))
					if w.decodable(bad) {
						continue
					}
					before := w.nodes[to].storeCanon()
					s.Fault("msg-corrupted")
					func() {
						defer func() {
							if r := recover(); r != nil {
								s.Fail("panic", "", "NotifyMsg panicked on a malformed message: %v", r)
							}
						}()
						w.nodes[to].kv.NotifyMsg(bad)
					}()
					s.Wait()
					if after := w.nodes[to].storeCanon(); after != before {
						s.Fail("malformed-message-changed-state", "", "node %s: a message the codec rejects changed the stored state from [%s] to [%s]", w.nodes[to].name, before, after)
					}
				}
			}
		} else if w.fair && s.Chance(0.3, "delay") {
			s.Fault("msg-delayed")
			w.inflight = append(w.inflight, p)
			if s.Chance(0.3, "dup") {
				s.Fault("msg-duplicated")
				w.deliver(p)
			}
			return
		}
		w.deliver(p)
	}
	pushPull := func(a, b int) {
		if !w.connected(a, b) {
			return
		}
		s.Probe("push-pull")
		sa := append([]byte(nil), w.nodes[a].kv.LocalState(false)...)
		sb := append([]byte(nil), w.nodes[b].kv.LocalState(false)...)
		pa := &packet{from: a, to: b, kind: "pushpull", payload: sa, sentAt: s.Elapsed()}
		pb := &packet{from: b, to: a, kind: "pushpull", payload: sb, sentAt: s.Elapsed()}
		if faultsOn && o.corrupt && s.Chance(0.1, "truncate-pushpull") && len(sa) > 8 {
			// a short frame: everything before the damaged frame is still applied, the rest is dropped
			fr := frames(sa)
			cut := len(sa) - 3
			if len(fr) > 0 {
				cut = len(sa) - len(fr[len(fr)-1])/2
			}
			// or only a few bytes short / inside the length prefix of the last frame
			switch k := s.Choose(8, "truncate-where"); {
			case k >= 1 && k <= 4:
				cut = len(sa) - k
			case k == 5 && len(fr) > 0:
				cut = len(sa) - len(fr[len(fr)-1]) + 2
			}
			if cut < 0 {
				cut = 0
			}
			pa.payload = sa[:cut]
			s.Fault("pushpull-truncated")
		}
		if faultsOn && o.corrupt && s.Chance(0.15, "bad-frame-in-pushpull") {
			// one frame of the full-state payload carries an unknown codec: it must be skipped, the frames
			// before and after it must still be applied
			fr := frames(sa)
			if len(fr) >= 1 {
				j := s.Choose(len(fr), "bad-frame")
				var kvp memberlist.KeyValuePair
				if kvp.Unmarshal(fr[j][4:]) == nil {
					kvp.Codec = "no-such-codec"
					if s.Chance(0.5, "bad-frame-claims-deletion") {
						kvp.Deleted = true
						kvp.UpdateTimeMillis = time.Now().UnixMilli()
					}
					bad, _ := kvp.Marshal()
					var payload []byte
					for i, f := range fr {
						if i == j {
							var l [4]byte
							binary.BigEndian.PutUint32(l[:], uint32(len(bad)))
							payload = append(payload, l[:]...)
							payload = append(payload, bad...)
						} else {
							payload = append(payload, f...)
						}
					}
					s.Fault("pushpull-frame-unknown-codec")
					w.deliver(&packet{from: a, to: b, kind: "pushpull", payload: payload, sentAt: s.Elapsed()})
					for i, f := range fr {
						if i == j {
							continue
						}
						before := w.nodes[b].storeCanon()
						w.nodes[b].kv.NotifyMsg(f[4:])
						s.Wait()
						if after := w.nodes[b].storeCanon(); after != before && !w.onlyExpiredRemovalsDiffer(before, after) {
							s.Fail("pushpull-good-frame-skipped", "", "a full-state exchange with one unknown-codec frame did not apply the well-formed frame %d of %d: delivering it again changed the state from [%s] to [%s]", i, len(fr), before, after)
						}
					}
					return
				}
			}
		}
		if faultsOn && s.Chance(0.15, "one-way") {
			s.Fault("pushpull-one-way")
			w.deliver(pa)
			return
		}
		w.deliver(pa)
		w.deliver(pb)
	}

	// ---- fault phase -------------------------------------------------------------------------------
	steps := s.Range(20, 160, "steps")
	for i := 0; i < steps && s.Budget(); i++ {
		s.Wait()
		type alt struct {
			w   int
			run func()
		}
		var alts []alt
		for _, nm := range s.Parked() {
			nm := nm
			alts = append(alts, alt{5, func() { s.Release(nm) }})
		}
		for _, wr := range writers {
			wr := wr
			if !wr.busy && !wr.removed && w.nodes[wr.home].alive {
				alts = append(alts, alt{3, func() { writerOp(wr) }})
			}
		}
		for _, ed := range editors {
			ed := ed
			if !ed.busy && w.nodes[ed.home].alive {
				ew := 2
				if o.prop == "C04" {
					ew = 3
				}
				alts = append(alts, alt{ew, func() { editorOp(ed) }})
			}
		}
		if o.removals > 0.2 {
			alts = append(alts, alt{1, forget})
		}
		for _, wr := range writers {
			wr := wr
			if wr.ops > 0 && !busy2[wr.id] && w.nodes[wr.home].alive {
				alts = append(alts, alt{1, func() { ring2Op(wr) }})
			}
		}
		if !auxBusy && !auxDeleted && w.nodes[auxHome].alive {
			alts = append(alts, alt{1, auxOp})
		}
		alts = append(alts, alt{8, func() {
			from := s.Choose(n, "gossip-from")
			if !w.nodes[from].alive {
				return
			}
			var to int
			if w.fair {
				w.nodes[from].rr++
				to = (from + 1 + w.nodes[from].rr%(n-1)) % n
			} else {
				to = (from + 1 + s.Choose(n-1, "gossip-to")) % n
			}
			sendGossip(from, to)
		}})
		if len(w.inflight) > 0 {
			alts = append(alts, alt{4, func() {
				k := s.Choose(len(w.inflight), "deliver-which")
				p := w.inflight[k]
				w.inflight = append(w.inflight[:k], w.inflight[k+1:]...)
				// a message older than the tombstone retention is beyond what the statement covers
				if s.Elapsed()-p.sentAt > w.leftTimeout/2 && !w.fair {
					s.Fault("msg-expired")
					return
				}
				if !w.connected(p.from, p.to) && !w.fair {
					dropped++
					return
				}
				for id := range w.nodes[p.to].tomb {
					if at, ok := w.removedAt[id]; ok && p.sentAt < at {
						lateDelivered = true
					}
				}
				for id := range w.nodes[p.to].ptomb {
					if at, ok := w.removedAt[id]; ok && p.sentAt < at {
						lateDelivered = true
						s.Probe("pre-removal-message-delivered-after-partition-tombstone")
					}
				}
				s.Probe("delayed-message-delivered")
				w.deliver(p)
			}})
		}
		if usePushPull {
			alts = append(alts, alt{2, func() {
				a := s.Choose(n, "pp-a")
				b := (a + 1 + s.Choose(n-1, "pp-b")) % n
				pushPull(a, b)
			}})
		}
		if faultsOn && n >= 2 {
			alts = append(alts, alt{1, func() {
				if s.Chance(0.5, "heal") {
					for i := range w.group {
						w.group[i] = 0
					}
					healed++
					s.Fault("partition-healed")
					return
				}
				for i := range w.group {
					w.group[i] = s.Choose(2, "group")
				}
				s.Fault("partitioned")
			}})
			alts = append(alts, alt{1, func() {
				if !s.Chance(0.3, "restart") {
					return
				}
				nd := w.nodes[s.Choose(n, "restart-which")]
				if !nd.alive {
					return
				}
				s.Fault("node-restarted")
				for _, gw := range nd.watchers {
					gw.cancel()
					gw.cancelled = true
				}
				nd.alive = false
				nd.kv.StopAsync()
				s.Wait()
				for id, an := range ackNode {
					if an == nd.idx {
						delete(acked, id)
						delete(ackNode, id)
					}
				}
				w.boot(nd)
				healed++
			}})
		}
		alts = append(alts, alt{3, func() {
			d := sim.Pick(s, "advance", time.Second, 300*time.Millisecond, 2*time.Second, 5*time.Second, 20*time.Second, w.leftTimeout/3, w.leftTimeout+3*time.Second)
			if w.fair && s.Elapsed()+d > w.leftTimeout/3 {
				// rebroadcast-only runs have no push/pull to repair what an expired tombstone leaves behind:
				// keep every delay well below the retention
				d = time.Second
				if s.Elapsed()+d > w.leftTimeout/3 {
					return
				}
			}
			s.Advance(d)
		}})
		alts = append(alts, alt{1, addWatcher})
		alts = append(alts, alt{1, func() {
			// cancel a watcher
			var all []*gwatch
			for _, nd := range w.nodes {
				for _, gw := range nd.watchers {
					if !gw.cancelled {
						all = append(all, gw)
					}
				}
			}
			if len(all) == 0 {
				return
			}
			gw := all[s.Choose(len(all), "cancel-watch")]
			gw.cancelled = true
			gw.cancel()
			s.Wait()
		}})
		total := 0
		for _, a := range alts {
			total += a.w
		}
		v := s.Choose(total, "step")
		for _, a := range alts {
			if v < a.w {
				a.run()
				break
			}
			v -= a.w
		}
		s.Wait()
		if os.Getenv("VERIF_RAW") != "" {
			for _, nd := range w.nodes {
				if nd.alive {
					fmt.Fprintf(os.Stderr, "RAW step %d %s v=%d %s\n", i, nd.name, nd.kv.SimStore()[ringKey].Version, nd.rawCanon(ringKey))
				}
			}
		}
		checkAll(fmt.Sprintf("step %d", i))
		if i%8 == 0 {
			lookupCheck()
		}
	}

	// ---- faults stop: heal, finish the operations in flight, then let messages flow ------------------
	for i := range w.group {
		w.group[i] = 0
	}
	faultsOn = false
	for i := 0; i < 400 && len(s.Parked()) > 0; i++ {
		s.Release(s.Parked()[0])
	}
	// the gossip store retries a CAS that made no change after a second
	for i := 0; i < 30; i++ {
		busy := false
		for _, wr := range writers {
			if wr.busy {
				busy = true
			}
		}
		for _, ed := range editors {
			if ed.busy {
				busy = true
			}
		}
		for _, b := range busy2 {
			busy = busy || b
		}
		busy = busy || auxBusy
		if !busy {
			break
		}
		s.Advance(time.Second)
		for len(s.Parked()) > 0 {
			s.Release(s.Parked()[0])
		}
	}
	for _, p := range w.inflight {
		if s.Elapsed()-p.sentAt <= w.leftTimeout/2 || w.fair {
			w.deliver(p)
		}
	}
	w.inflight = nil
	checkAll("draining delayed messages")
	var alive []int
	for _, nd := range w.nodes {
		if nd.alive {
			alive = append(alive, nd.idx)
		}
	}
	rounds := 0
	for ; rounds < 60 && !w.queuesEmpty(); rounds++ {
		for _, a := range alive {
			for k := 1; k < n; k++ {
				b := (a + k) % n
				if !w.nodes[b].alive {
					continue
				}
				if p := w.gossipPacket(a, b, 1<<20); p != nil {
					w.deliver(p)
				}
			}
		}
		checkAll("quiescence gossip round")
	}
	if !w.queuesEmpty() {
		var q []string
		for _, nd := range w.nodes {
			if nd.alive {
				l, g := nd.kv.SimQueued()
				q = append(q, fmt.Sprintf("%s local=%d gossip=%d", nd.name, l, g))
			}
		}
		s.Fail("broadcast-queues-never-drain", "", "after %d fair gossip rounds without loss the broadcast queues are still not empty: %v (alive nodes %d)", rounds, q, w.numAlive())
	}
	if usePushPull {
		for r := 0; r < 2; r++ {
			for _, a := range alive {
				for _, b := range alive {
					if a != b {
						pa := &packet{from: a, to: b, kind: "pushpull", payload: append([]byte(nil), w.nodes[a].kv.LocalState(false)...)}
						w.deliver(pa)
					}
				}
			}
			// the changes learnt by push/pull are re-gossiped
			for i := 0; i < 20 && !w.queuesEmpty(); i++ {
				for _, a := range alive {
					for k := 1; k < n; k++ {
						if b := (a + k) % n; w.nodes[b].alive {
							if p := w.gossipPacket(a, b, 1<<20); p != nil {
								w.deliver(p)
							}
						}
					}
				}
			}
		}
	}
	// delayed notifications
	s.Advance(w.cfg.NotifyInterval + time.Second)
	s.Wait()
	checkAll("quiescence")
	lookupCheck()

	// ---- convergence oracle (C06) ------------------------------------------------------------------
	for _, key := range []string{ringKey, partKey, ring2Key} {
		if key == ringKey && o.collisions {
			// the statement of convergence (C03 / C06) presupposes that no two instances claim the same token:
			// with deliberate collisions the loser's token list legitimately depends on the merge order
			continue
		}
		var first string
		var firstNode string
		for _, a := range alive {
			nd := w.nodes[a]
			c := canonValue(nd.visible(key), false)
			if c == "<nil>" {
				c = ""
			}
			if firstNode == "" {
				first, firstNode = c, nd.name
			} else if c != first {
				s.Fail("no-convergence", "", "key %s after quiescence (%d gossip rounds, push/pull=%v): node %s shows [%s], node %s shows [%s]; raw: %s", key, rounds, usePushPull, firstNode, first, nd.name, c, w.allRaw())
			}
		}
	}
	// acknowledged heartbeats in the second ring
	for id, ts := range acked2 {
		if !w.nodes[ack2Node[id]].alive || w.nodes[ack2Node[id]].incarnation != ack2Inc[id] {
			continue
		}
		for _, a := range alive {
			raw, _ := w.nodes[a].raw(ring2Key).(*ring.Desc)
			vis, _ := w.nodes[a].visible(ring2Key).(*ring.Desc)
			e, ok := ring.InstanceDesc{}, false
			if raw != nil && vis != nil {
				e, ok = vis.Ingesters[id]
			}
			if !ok || e.Timestamp < ts {
				s.Fail("acknowledged-update-lost", "second-ring", "the heartbeat of %s in the second ring (timestamp %d) was acknowledged on %s; after quiescence node %s shows [%s] (stored: %s)", id, ts, w.nodes[ack2Node[id]].name, w.nodes[a].name, canonValue(w.nodes[a].visible(ring2Key), false), w.nodes[a].rawCanon(ring2Key))
			}
		}
	}
	// an acknowledged lock change is visible everywhere (unless a later lock change or the partition's removal superseded it)
	for pid, al := range ackedLocks {
		if !w.nodes[al.node].alive || w.nodes[al.node].incarnation != al.inc {
			continue
		}
		if _, removed := w.removedAt[fmt.Sprintf("p%d", pid)]; removed {
			continue // removed (and possibly created anew) since
		}
		for _, a := range alive {
			raw, _ := w.nodes[a].raw(partKey).(*ring.PartitionRingDesc)
			if raw == nil {
				continue
			}
			p, ok := raw.Partitions[pid]
			if !ok || p.State == ring.PartitionDeleted || p.StateChangeLockedTimestamp > al.ts {
				continue
			}
			if p.StateChangeLockedTimestamp < al.ts || p.StateChangeLocked != al.val {
				s.Fail("acknowledged-update-lost", "partition-lock", "the lock change of partition %d (locked=%v at %d) was acknowledged on %s; after quiescence node %s holds locked=%v/%d: %s", pid, al.val, al.ts, w.nodes[al.node].name, w.nodes[a].name, p.StateChangeLocked, p.StateChangeLockedTimestamp, w.nodes[a].rawCanon(partKey))
			}
		}
	}
	// every acknowledged CAS (on a node that is still alive and was not restarted) is reflected everywhere
	for id, ts := range acked {
		if !w.nodes[ackNode[id]].alive || w.nodes[ackNode[id]].incarnation != ackInc[id] {
			continue
		}
		for _, a := range alive {
			nd := w.nodes[a]
			okAck := false
			switch {
			case strings.HasPrefix(id, "w"):
				raw, _ := nd.raw(ringKey).(*ring.Desc)
				if raw != nil {
					if e, ok := raw.Ingesters[id]; ok && e.Timestamp >= ts {
						okAck = true
					}
				}
				// a tombstone older than the retention may already be gone everywhere
				if at, removed := w.removedAt[id]; removed && s.Elapsed()-at > w.leftTimeout-2*time.Second {
					okAck = true
				}
			case strings.HasPrefix(id, "p"):
				raw, _ := nd.raw(partKey).(*ring.PartitionRingDesc)
				if raw != nil {
					var pid int32
					fmt.Sscanf(id, "p%d", &pid)
					if p, ok := raw.Partitions[pid]; ok && p.StateTimestamp >= ts {
						okAck = true
					}
				}
				// a tombstone older than the retention may already be gone everywhere
				if at, removed := w.removedAt[id]; removed && s.Elapsed()-at > w.leftTimeout-2*time.Second {
					okAck = true
				}
			case strings.HasPrefix(id, "o"):
				raw, _ := nd.raw(partKey).(*ring.PartitionRingDesc)
				if raw != nil {
					if ow, ok := raw.Owners[id]; ok && ow.UpdatedTimestamp >= ts {
						okAck = true
					}
				}
				okAck = okAck || true // owners may be removed again; covered by convergence
			}
			if !okAck {
				s.Fail("acknowledged-update-lost", "", "the CAS on entry %s with timestamp %d was acknowledged on %s; after quiescence node %s holds [%s]", id, ts, w.nodes[ackNode[id]].name, nd.name, nd.rawCanon(ringKey)+" | "+nd.rawCanon(partKey))
			}
		}
	}
	// watchers: registered and not cancelled => called with the final value
	for _, a := range alive {
		nd := w.nodes[a]
		for _, gw := range nd.watchers {
			if gw.cancelled {
				continue
			}
			if gw.sawTomb != "" {
				s.Fail("tombstone-visible", "", "watcher %s was called with a value containing removed entries: %s", gw.name, gw.sawTomb)
			}
			final := canonValue(nd.visible(gw.key), false)
			if gw.calls > 0 && gw.last != final {
				// classify: is the only difference an entry whose (expired) tombstone was merged?
				key := ""
				if gw.key == ringKey || gw.key == partKey {
					lastSet := map[string]bool{}
					for _, f := range strings.Fields(strings.ReplaceAll(gw.last, "} ", "}\n")) {
						_ = f
					}
					for _, part := range strings.Split(gw.last, "} ") {
						if part != "" {
							lastSet[strings.TrimSuffix(part, "}")+"}"] = true
						}
					}
					finalSet := map[string]bool{}
					for _, part := range strings.Split(final, "} ") {
						if part != "" {
							finalSet[strings.TrimSuffix(part, "}")+"}"] = true
						}
					}
					onlyExpired := true
					for e := range lastSet {
						if finalSet[e] {
							continue
						}
						id := strings.SplitN(e, "{", 2)[0]
						at, removed := w.removedAt[id]
						if !removed || s.Elapsed()-at < w.leftTimeout-2*time.Second {
							onlyExpired = false
						}
					}
					for e := range finalSet {
						if !lastSet[e] {
							onlyExpired = false
						}
					}
					if onlyExpired {
						key = "expired-tombstone-merged-silently"
					}
				}
				s.Fail("watcher-stale", key, "watcher %s on %s: last callback value [%s], final value [%s] (%d callbacks)", gw.name, gw.key, gw.last, final, gw.calls)
			}
		}
	}
	if (dropped > 0 && healed > 0) || (w.fair && s.Probes["gossip-packet"] > 5) {
		s.Nontrivial = true
	}
	if o.prop == "C04" {
		s.Nontrivial = lateDelivered
		if lateDelivered {
			s.Probe("pre-removal-message-delivered-after-tombstone")
		}
	}
	if o.prop == "C05" {
		s.Nontrivial = collisionsResolved > 0 || s.Probes["token-collision-resolved"] > 0
	}
	s.Note("nodes=%d writers=%d editors=%d fair=%v faults=%v steps=%d final=[%s]", n, nWriters, nEditors, w.fair, !w.fair, steps, canonValue(w.nodes[alive[0]].visible(ringKey), false))
	s.State(n, canonValue(w.nodes[alive[0]].visible(ringKey), false), canonValue(w.nodes[alive[0]].visible(partKey), false))
}

var entryRE = regexp.MustCompile(`[^\s{}"]+\{[^{}]*\}`)

func sortedPtomb(m map[string]int64) []string {
	ks := make([]string, 0, len(m))
	for k := range m {
		ks = append(ks, k)
	}
	sort.Strings(ks)
	return ks
}

func sortedKeys(m map[string]ring.InstanceDesc) []string {
	var ks []string
	for k := range m {
		ks = append(ks, k)
	}
	sort.Strings(ks)
	return ks
}

// onlyExpiredRemovalsDiffer: the two store renderings differ only in entries that were removed longer
// ago than the tombstone retention (their tombstone may be discarded at any merge, after which stale
// copies can come back: outside the statements).
func (w *gworld) onlyExpiredRemovalsDiffer(before, after string) bool {
	// storeCanon: `"key": deleted=false id{...} id{...} || "key2": ...`; entries are `id{...}` groups
	set := func(c string) map[string]bool {
		m := map[string]bool{}
		for _, e := range entryRE.FindAllString(c, -1) {
			m[strings.TrimSuffix(e, "}")] = true
		}
		return m
	}
	a, b := set(before), set(after)
	for e := range a {
		if !b[e] && !w.expiredEntry(e) {
			return false
		}
	}
	for e := range b {
		if !a[e] && !w.expiredEntry(e) {
			return false
		}
	}
	return true
}

func (w *gworld) expiredEntry(e string) bool {
	id := strings.SplitN(e, "{", 2)[0]
	if i := strings.LastIndex(id, " "); i >= 0 {
		id = id[i+1:]
	}
	at, removed := w.removedAt[id]
	return removed && w.s.Elapsed()-at >= w.leftTimeout-2*time.Second
}
