package wgossip

// GOSSIP world: 2..6 real memberlist.KV nodes (store, CAS, merge, broadcast queues with
// ringBroadcast.Invalidates, per-key workers, watchers, tombstone GC, obsolete-entry cleanup) without
// hashicorp/memberlist's transport. The harness is the network: it calls the exported delegate
// methods GetBroadcasts / NotifyMsg / LocalState / MergeRemoteState and decides for every message:
// deliver, drop, duplicate, delay, reorder, corrupt, partition.

import (
	"context"
	"encoding/binary"
	"fmt"
	"sort"
	"strings"
	"time"

	"github.com/go-kit/log"

	"github.com/grafana/dskit/flagext"
	"github.com/grafana/dskit/kv/codec"
	"github.com/grafana/dskit/kv/memberlist"
	"github.com/grafana/dskit/ring"
	"github.com/grafana/dskit/services"
	"github.com/grafana/dskit/zzverif/sim"
)

const (
	ringKey = "ring"
	partKey = "partitions"
	// a second ring in which the same instances register (one process, several rings) and a key that is written
	// a few times and then deleted
	ring2Key = "ring2"
	auxKey   = "aux"
)

type gwatch struct {
	node      *gnode
	key       string
	name      string
	cancel    context.CancelFunc
	cancelled bool
	calls     int
	last      string // canonical visible value of the last callback
	sawTomb   string
	startedAt int // node.changes[key] when the watcher was registered
}

type gnode struct {
	idx         int
	name        string
	kv          *memberlist.KV
	ringCl      *memberlist.Client
	partCl      *memberlist.Client
	alive       bool
	incarnation int
	watchers    []*gwatch
	rr          int            // round-robin pointer for fair gossip targets
	lastAck     map[string]int64 // entry id -> timestamp of the last CAS acknowledged on this node (since its last restart)
	// tombstone tracking for C04: id -> true while the raw state holds its tombstone
	tomb map[string]bool
	// the same for the partition ring: "p<id>" / owner id -> timestamp of the tombstone held
	ptomb map[string]int64
	// firstVal: entry id -> timestamp in the first value this node (incarnation) ever stored under the ring key
	firstVal map[string]int64
	// emitted: per key, the join of every broadcast this node (incarnation) has handed to the network
	emitted map[string]memberlist.Mergeable
}

type packet struct {
	from, to int
	msgs     [][]byte
	kind     string // gossip | pushpull
	sentAt   time.Duration
	payload  []byte // pushpull
}

type gworld struct {
	s        *sim.Sim
	nodes    []*gnode
	logger   log.Logger
	cfg      memberlist.KVConfig
	inflight []*packet
	group    []int // partition group id per node (messages only flow inside a group)

	leftTimeout time.Duration
	obsolete    time.Duration
	fair        bool // rebroadcast-only mode: gossip targets are round robin, nothing is lost

	removedAt map[string]time.Duration // entry id -> virtual time of its removal (tombstone creation)
	probeLate bool
}

func (w *gworld) numAlive() int {
	n := 0
	for _, nd := range w.nodes {
		if nd.alive {
			n++
		}
	}
	return n
}

func newGWorld(s *sim.Sim, n int) *gworld {
	w := &gworld{s: s, logger: log.NewNopLogger(), removedAt: map[string]time.Duration{}}
	flagext.DefaultValues(&w.cfg)
	w.leftTimeout = sim.Pick(s, "left-timeout", 2*time.Minute, 40*time.Second, 10*time.Minute)
	w.obsolete = sim.Pick(s, "obsolete-timeout", 30*time.Second, 5*time.Minute)
	w.cfg.LeftIngestersTimeout = w.leftTimeout
	w.cfg.ObsoleteEntriesTimeout = w.obsolete
	w.cfg.NotifyInterval = sim.Pick(s, "notify-interval", 0, 2*time.Second)
	w.cfg.RetransmitMult = s.Range(5, 8, "retransmit-mult")
	w.cfg.MessageHistoryBufferBytes = 0
	w.cfg.Codecs = []codec.Codec{ring.GetCodec(), ring.GetPartitionRingCodec()}
	w.group = make([]int, n)
	for i := 0; i < n; i++ {
		w.nodes = append(w.nodes, &gnode{idx: i, name: fmt.Sprintf("n%d", i)})
	}
	for _, nd := range w.nodes {
		w.boot(nd)
	}
	s.OnEnd(func() {
		for _, nd := range w.nodes {
			if nd.alive {
				nd.kv.StopAsync()
			}
			for _, gw := range nd.watchers {
				gw.cancel()
			}
		}
	})
	return w
}

// boot (re)creates the node's KV with empty state.
func (w *gworld) boot(nd *gnode) {
	nd.incarnation++
	cfg := w.cfg
	cfg.NodeName = nd.name
	nd.kv = memberlist.NewSimKV(cfg, w.logger, nil, w.numAlive)
	if err := nd.kv.StartAsync(context.Background()); err != nil {
		panic(err)
	}
	w.s.Wait()
	if nd.kv.State() != services.Running {
		panic("gossip KV did not start: " + nd.kv.State().String())
	}
	var err error
	if nd.ringCl, err = memberlist.NewClient(nd.kv, ring.GetCodec()); err != nil {
		panic(err)
	}
	if nd.partCl, err = memberlist.NewClient(nd.kv, ring.GetPartitionRingCodec()); err != nil {
		panic(err)
	}
	nd.alive = true
	nd.lastAck = map[string]int64{}
	nd.tomb = map[string]bool{}
	nd.ptomb = map[string]int64{}
	nd.firstVal = nil
	nd.emitted = map[string]memberlist.Mergeable{}
	nd.watchers = nil
}

// ---- canonical views ---------------------------------------------------------------------------

// canonInst renders the token list as a set (sorted, without repetitions): the order and multiplicity of what a
// node stores is the subject of the per-node oracle tokens-not-sorted-distinct, not of the comparisons between nodes.
func canonInst(id string, e ring.InstanceDesc) string {
	toks := append([]uint32(nil), e.Tokens...)
	sort.Slice(toks, func(i, j int) bool { return toks[i] < toks[j] })
	out := toks[:0]
	for i, t := range toks {
		if i == 0 || t != toks[i-1] {
			out = append(out, t)
		}
	}
	return fmt.Sprintf("%s{%v ts=%d tok=%v z=%s ro=%v}", id, e.State, e.Timestamp, out, e.Zone, e.ReadOnly)
}

func canonDesc(d *ring.Desc, withTombstones bool) string {
	if d == nil {
		return "<nil>"
	}
	var ids []string
	for id, e := range d.Ingesters {
		if e.State == ring.LEFT && !withTombstones {
			continue
		}
		ids = append(ids, id)
	}
	sort.Strings(ids)
	var b []string
	for _, id := range ids {
		b = append(b, canonInst(id, d.Ingesters[id]))
	}
	return strings.Join(b, " ")
}

func canonPartDesc(d *ring.PartitionRingDesc, withTombstones bool) string {
	if d == nil {
		return "<nil>"
	}
	var pids []int
	for id, p := range d.Partitions {
		if p.State == ring.PartitionDeleted && !withTombstones {
			continue
		}
		pids = append(pids, int(id))
	}
	sort.Ints(pids)
	var b []string
	for _, id := range pids {
		p := d.Partitions[int32(id)]
		b = append(b, fmt.Sprintf("p%d{%v ts=%d lock=%v/%d}", id, p.State, p.StateTimestamp, p.StateChangeLocked, p.StateChangeLockedTimestamp))
	}
	var oids []string
	for id, o := range d.Owners {
		if o.State == ring.OwnerDeleted && !withTombstones {
			continue
		}
		oids = append(oids, id)
	}
	sort.Strings(oids)
	for _, id := range oids {
		o := d.Owners[id]
		b = append(b, fmt.Sprintf("%s{%v ts=%d p=%d}", id, o.State, o.UpdatedTimestamp, o.OwnedPartition))
	}
	return strings.Join(b, " ")
}

func canonValue(v interface{}, withTombstones bool) string {
	switch d := v.(type) {
	case *ring.Desc:
		return canonDesc(d, withTombstones)
	case *ring.PartitionRingDesc:
		return canonPartDesc(d, withTombstones)
	case nil:
		return "<nil>"
	}
	return fmt.Sprintf("<%T>", v)
}

// raw returns the node's stored descriptor for the key, tombstones included.
func (nd *gnode) raw(key string) interface{} {
	e, ok := nd.kv.SimStore()[key]
	if !ok || e.Value == nil {
		return nil
	}
	return e.Value
}

func (nd *gnode) rawCanon(key string) string {
	e, ok := nd.kv.SimStore()[key]
	if !ok {
		return "<absent>"
	}
	return fmt.Sprintf("deleted=%v %s", e.Deleted, canonValue(e.Value, true))
}

// visible returns what readers see.
func (nd *gnode) visible(key string) interface{} {
	cl := nd.ringCl
	if key == partKey {
		cl = nd.partCl
	}
	v, _ := cl.Get(context.Background(), key)
	return v
}

// noteEmitted merges a broadcast the node hands out into the join of everything it has said so far.
func (nd *gnode) noteEmitted(msg []byte) {
	var kvp memberlist.KeyValuePair
	if err := kvp.Unmarshal(msg); err != nil || kvp.Deleted {
		return
	}
	var v interface{}
	var err error
	switch kvp.Key {
	case ringKey, ring2Key:
		v, err = ring.GetCodec().Decode(kvp.Value)
	case partKey:
		v, err = ring.GetPartitionRingCodec().Decode(kvp.Value)
	default:
		return
	}
	mv, ok := v.(memberlist.Mergeable)
	if err != nil || !ok {
		return
	}
	if cur := nd.emitted[kvp.Key]; cur == nil {
		nd.emitted[kvp.Key] = mv.Clone()
	} else {
		_, _ = cur.Merge(mv, false)
	}
}

// unsaid returns the entries of the node's stored value for key that are news to somebody who has heard every
// broadcast the node has handed out (nil if there is none).
func (nd *gnode) unsaid(key string) []string {
	raw, _ := nd.raw(key).(memberlist.Mergeable)
	if raw == nil {
		return nil
	}
	cur := nd.emitted[key]
	if cur == nil {
		return raw.MergeContent()
	}
	ch, err := cur.Clone().Merge(raw, false)
	if err != nil || ch == nil {
		return nil
	}
	return ch.MergeContent()
}

// ---- network -----------------------------------------------------------------------------------

func (w *gworld) connected(a, b int) bool {
	return w.nodes[a].alive && w.nodes[b].alive && w.group[a] == w.group[b]
}

// gossipPacket takes the next broadcasts of node from (as hashicorp/memberlist would for one target).
func (w *gworld) gossipPacket(from, to int, limit int) *packet {
	msgs := w.nodes[from].kv.GetBroadcasts(3, limit)
	if len(msgs) == 0 {
		return nil
	}
	cp := make([][]byte, len(msgs))
	for i, m := range msgs {
		cp[i] = append([]byte(nil), m...)
		w.nodes[from].noteEmitted(m)
	}
	return &packet{from: from, to: to, msgs: cp, kind: "gossip", sentAt: w.s.Elapsed()}
}

// deliver hands a packet to its target (if still alive) and lets the per-key workers finish.
func (w *gworld) deliver(p *packet) {
	t := w.nodes[p.to]
	if !t.alive {
		return
	}
	w.s.Event("deliver %s n%d->n%d (%d msgs, sent at %v)", p.kind, p.from, p.to, len(p.msgs), p.sentAt)
	switch p.kind {
	case "gossip":
		if len(p.msgs) == 1 {
			if in := decodeRingMsg(p.msgs[0]); in != nil {
				pre, _ := t.raw(ringKey).(*ring.Desc)
				t.kv.NotifyMsg(p.msgs[0])
				w.s.Wait()
				post, _ := t.raw(ringKey).(*ring.Desc)
				w.checkCollisionStep(t, pre, in, post, "gossip message")
				return
			}
		}
		for _, m := range p.msgs {
			t.kv.NotifyMsg(m)
		}
	case "pushpull":
		func() {
			defer func() {
				if r := recover(); r != nil {
					w.s.Fail("panic", "", "MergeRemoteState panicked on a full-state payload of %d bytes: %v", len(p.payload), r)
				}
			}()
			t.kv.MergeRemoteState(p.payload, false)
		}()
	}
	w.s.Wait()
}

// frames splits a LocalState payload into its length-prefixed KeyValuePair frames.
func frames(data []byte) [][]byte {
	var out [][]byte
	for len(data) >= 4 {
		l := int(binary.BigEndian.Uint32(data))
		if len(data) < 4+l {
			break
		}
		out = append(out, data[:4+l])
		data = data[4+l:]
	}
	return out
}

// corrupt returns a structurally damaged copy of a gossip message: mode 0 truncated inside the value,
// 1 garbage, 2 empty key, 3 unknown codec, 4 empty message.
func corrupt(msg []byte, mode int) []byte {
	var kvp memberlist.KeyValuePair
	switch mode {
	case 0:
		if len(msg) > 6 {
			return append([]byte(nil), msg[:len(msg)-len(msg)/3-1]...)
		}
		return []byte{0xff}
	case 1:
		return []byte{0xde, 0xad, 0xbe, 0xef, 0xff, 0xff, 0xff, 0xff, 0x0f}
	case 2:
		if kvp.Unmarshal(msg) == nil {
			kvp.Key = ""
			b, _ := kvp.Marshal()
			return b
		}
	case 3:
		if kvp.Unmarshal(msg) == nil {
			kvp.Codec = "no-such-codec"
			b, _ := kvp.Marshal()
			return b
		}
	}
	return []byte{}
}

// decodable reports whether an independent decoder accepts the message (valid frame, non-empty key,
// known codec, decodable value).
func (w *gworld) decodable(msg []byte) bool {
	var kvp memberlist.KeyValuePair
	if err := kvp.Unmarshal(msg); err != nil || kvp.Key == "" {
		return false
	}
	for _, c := range w.cfg.Codecs {
		if c.CodecID() == kvp.Codec {
			if len(kvp.Value) == 0 {
				return true
			}
			_, err := c.Decode(kvp.Value)
			return err == nil
		}
	}
	return false
}

func (w *gworld) allRaw() string {
	var b []string
	for _, nd := range w.nodes {
		if nd.alive {
			b = append(b, nd.name+":["+nd.rawCanon(ringKey)+" | "+nd.rawCanon(partKey)+"]")
		}
	}
	return strings.Join(b, " ")
}

func (w *gworld) queuesEmpty() bool {
	for _, nd := range w.nodes {
		if !nd.alive {
			continue
		}
		if l, g := nd.kv.SimQueued(); l+g > 0 {
			return false
		}
	}
	return true
}

// storeCanon renders the whole store of a node (all keys), tombstones included.
func (nd *gnode) storeCanon() string {
	st := nd.kv.SimStore()
	var keys []string
	for k := range st {
		keys = append(keys, k)
	}
	sort.Strings(keys)
	var b []string
	for _, k := range keys {
		b = append(b, fmt.Sprintf("%q: deleted=%v %s", k, st[k].Deleted, canonValue(st[k].Value, true)))
	}
	return strings.Join(b, " || ")
}
