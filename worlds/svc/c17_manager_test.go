package wsvc

// C17 (part 2) – services.Manager over 1..3 services, with a ManagerListener, waiters and a
// FailureWatcher. Real code: Manager, BasicService, FailureWatcher (all with lock-point yields).
// Stub: service functions, listener callbacks, clients.

import (
	"context"
	"errors"
	"fmt"
	"sort"
	"strings"

	"github.com/grafana/dskit/services"
	"github.com/grafana/dskit/zzverif/sim"
)

func init() {
	sim.Register("C17", "manager", 4, runManager)
}

type mgrSvc struct {
	name     string
	svc      *services.BasicService
	visited  map[services.State]bool
	last     services.State
	startErr, runErr, stopErr error
}

func isTerminal(st services.State) bool { return st == services.Terminated || st == services.Failed }

func runManager(s *sim.Sim) {
	s.EnableL2(sim.Pick(s, "l2-percent", 100, 60, 0))
	n := s.Range(1, 3, "services")
	outcomes := map[string]*fnOutcome{}
	svcs := make([]*mgrSvc, n)
	var list []services.Service
	for i := range svcs {
		ms := &mgrSvc{name: fmt.Sprintf("s%d", i), visited: map[services.State]bool{services.New: true}, last: services.New}
		p := ms.name
		start := func(ctx context.Context) error {
			s.Park(p + "-fn-start")
			o := outcomes[p+"-fn-start"]
			ms.startErr = o.err
			return o.err
		}
		run := func(ctx context.Context) error {
			s.Park(p + "-fn-run")
			o := outcomes[p+"-fn-run"]
			if o.waitCtx {
				<-ctx.Done()
			}
			ms.runErr = o.err
			return o.err
		}
		stop := func(error) error {
			s.Park(p + "-fn-stop")
			o := outcomes[p+"-fn-stop"]
			ms.stopErr = o.err
			return o.err
		}
		ms.svc = services.NewBasicService(start, run, stop).WithName(p)
		svcs[i] = ms
		list = append(list, ms.svc)
	}
	mgr, err := services.NewManager(list...)
	if err != nil {
		s.Fail("new-manager", "", "NewManager: %v", err)
	}
	parent, cancelParent := context.WithCancel(context.Background())
	s.OnEnd(func() { cancelParent(); mgr.StopAsync() })

	// manager listener registered before anything starts: it must see everything
	healthyCalls, stoppedCalls := 0, 0
	failureCalls := map[string]int{}
	activeCb := 0
	cbSeq := 0
	cb := func(what string, f func()) {
		s.Locked(func() {
			activeCb++
			if activeCb > 1 {
				s.Fail("listener-concurrent-callbacks", "", "manager listener: %s started while another callback was running", what)
			}
			cbSeq++
		})
		s.Event("mgr listener <- %s", what)
		s.Park(fmt.Sprintf("ML-cb-%02d", cbSeq))
		s.Locked(func() { f(); activeCb-- })
	}
	mgr.AddListener(services.NewManagerListener(
		func() { cb("Healthy", func() { healthyCalls++ }) },
		func() { cb("Stopped", func() { stoppedCalls++ }) },
		func(sv services.Service) {
			name := services.DescribeService(sv)
			cb("Failure("+name+")", func() { failureCalls[name]++ })
		},
	))
	// failure watcher
	useFW := s.Chance(0.5, "failure-watcher")
	var fwErrs []error
	var fw *services.FailureWatcher
	if useFW {
		fw = services.NewFailureWatcher()
		fw.WatchManager(mgr)
		s.GoNow("fw-reader", func() {
			s.NameGoroutine("fw-reader")
			for e := range fw.Chan() {
				fwErrs = append(fwErrs, e)
				s.Event("failure watcher <- %v", e)
			}
		})
	}

	type waiter struct {
		kind               string
		ctx                context.Context
		cancel             context.CancelFunc
		invoked, returned  bool
		cancelled          bool
		err                error
	}
	var waiters []*waiter
	startInvoked, stopInvoked := false, false
	var startAsyncErr error
	startReturned := false
	nOps := s.Range(2, 7, "ops")
	for k := 0; k < nOps; k++ {
		name := fmt.Sprintf("c%d", k)
		switch op := s.Choose(6, "op"); op {
		case 0:
			if startInvoked {
				continue
			}
			startInvoked = true
			s.Go(name+"-mgr-start", func() {
				startAsyncErr = mgr.StartAsync(parent)
				startReturned = true
				s.Event("mgr StartAsync -> %v", startAsyncErr)
			})
		case 1:
			stopInvoked = true
			s.Go(name+"-mgr-stop", func() { mgr.StopAsync(); s.Event("mgr StopAsync done") })
		case 2:
			i := s.Choose(n, "which")
			s.Go(fmt.Sprintf("%s-stop-s%d", name, i), func() { svcs[i].svc.StopAsync() })
		case 3, 4:
			w := &waiter{kind: "healthy"}
			if op == 4 {
				w.kind = "stopped"
			}
			w.ctx, w.cancel = context.WithCancel(context.Background())
			s.OnEnd(w.cancel)
			waiters = append(waiters, w)
			s.Go(name+"-await-"+w.kind, func() {
				w.invoked = true
				if w.kind == "healthy" {
					w.err = mgr.AwaitHealthy(w.ctx)
				} else {
					w.err = mgr.AwaitStopped(w.ctx)
				}
				w.returned = true
				s.Event("Await%s -> %v", w.kind, w.err)
			})
		case 5:
			// a late start of the manager is common: make sure at least one run in two starts it
			if !startInvoked {
				startInvoked = true
				s.Go(name+"-mgr-start", func() {
					startAsyncErr = mgr.StartAsync(parent)
					startReturned = true
				})
			}
		}
	}
	parentCancelled := false
	everHealthyPossible := false

	observe := func() {
		for _, ms := range svcs {
			st := ms.svc.State()
			if st != ms.last {
				if !allowedEdges[[2]services.State{ms.last, st}] {
					// allow two edges in one step
					ok := false
					for mid := services.New; mid <= services.Failed; mid++ {
						if allowedEdges[[2]services.State{ms.last, mid}] && allowedEdges[[2]services.State{mid, st}] {
							ok = true
							ms.visited[mid] = true
						}
					}
					if !ok {
						s.Fail("illegal-transition", "", "%s went from %v to %v", ms.name, ms.last, st)
					}
				}
				ms.last = st
				ms.visited[st] = true
			}
		}
	}
	allIn := func(f func(*mgrSvc) bool) bool {
		for _, ms := range svcs {
			if !f(ms) {
				return false
			}
		}
		return true
	}
	anyIn := func(f func(*mgrSvc) bool) bool {
		for _, ms := range svcs {
			if f(ms) {
				return true
			}
		}
		return false
	}

	check := func() {
		observe()
		if allIn(func(ms *mgrSvc) bool { return ms.visited[services.Running] }) {
			everHealthyPossible = true
		}
		if healthyCalls > 1 || stoppedCalls > 1 {
			s.Fail("manager-listener-repeated", "", "Healthy called %d times, Stopped %d times", healthyCalls, stoppedCalls)
		}
		for name, c := range failureCalls {
			if c > 1 {
				s.Fail("failure-reported-twice", "", "Failure(%s) reported %d times", name, c)
			}
		}
		if healthyCalls > 0 && !everHealthyPossible {
			s.Fail("healthy-without-all-running", "", "Healthy() was called but not every service has been Running")
		}
		for _, w := range waiters {
			if !w.returned || w.err == nil {
				if w.returned && w.kind == "healthy" && !everHealthyPossible {
					s.Fail("await-healthy-early", "", "AwaitHealthy returned nil but not every service has been Running")
				}
				if w.returned && w.kind == "stopped" && !allIn(func(ms *mgrSvc) bool { return isTerminal(ms.last) }) {
					s.Fail("await-stopped-early", "", "AwaitStopped returned nil but services are %s", describeMgr(svcs))
				}
				continue
			}
			if errors.Is(w.err, context.Canceled) && w.cancelled {
				continue
			}
			if w.kind == "healthy" {
				left := anyIn(func(ms *mgrSvc) bool {
					return ms.visited[services.Stopping] || ms.visited[services.Terminated] || ms.visited[services.Failed]
				})
				if !left {
					s.Fail("await-healthy-error-early", "", "AwaitHealthy returned %v while every service can still reach Running (%s)", w.err, describeMgr(svcs))
				}
			} else {
				s.Fail("await-stopped-error", "", "AwaitStopped returned %v", w.err)
			}
		}
	}

	// observation point: no lock-point task and no manager-listener callback is pending
	observation := func() {
		if len(s.L2Parked()) > 0 || len(s.ParkedWithPrefix("ML-cb-")) > 0 {
			return
		}
		s.Probe("manager-observation-point")
		allRunning := allIn(func(ms *mgrSvc) bool { return ms.last == services.Running })
		allTerminal := allIn(func(ms *mgrSvc) bool { return isTerminal(ms.last) })
		if got := mgr.IsHealthy(); got != allRunning {
			s.Fail("manager-health", "", "IsHealthy()=%v but services are %s", got, describeMgr(svcs))
		}
		if got := mgr.IsStopped(); got != allTerminal {
			s.Fail("manager-stopped", "", "IsStopped()=%v but services are %s", got, describeMgr(svcs))
		}
		by := mgr.ServicesByState()
		for _, ms := range svcs {
			found := false
			for _, sv := range by[ms.last] {
				if sv == services.Service(ms.svc) {
					found = true
				}
			}
			if !found {
				s.Fail("services-by-state", "", "%s is %v but ServicesByState()=%v", ms.name, ms.last, fmtByState(by))
			}
		}
		total := 0
		for _, l := range by {
			total += len(l)
		}
		if total != len(svcs) {
			s.Fail("services-by-state", "", "ServicesByState lists %d services, manager has %d: %v", total, len(svcs), fmtByState(by))
		}
		for _, w := range waiters {
			if !w.invoked || w.returned {
				continue
			}
			if w.cancelled {
				s.Fail("waiter-stuck", "", "Await%s context cancelled but it has not returned", w.kind)
			}
			left := anyIn(func(ms *mgrSvc) bool {
				return ms.visited[services.Stopping] || ms.visited[services.Terminated] || ms.visited[services.Failed]
			})
			if w.kind == "healthy" && (allRunning || left) {
				s.Fail("waiter-stuck", "", "AwaitHealthy has not returned although services are %s", describeMgr(svcs))
			}
			if w.kind == "stopped" && allTerminal {
				s.Fail("waiter-stuck", "", "AwaitStopped has not returned although all services are terminal")
			}
		}
		if allTerminal {
			if stoppedCalls != 1 {
				s.Fail("stopped-not-reported", "", "all services terminal but Stopped() was called %d times", stoppedCalls)
			}
			for _, ms := range svcs {
				want := 0
				if ms.last == services.Failed {
					want = 1
				}
				if failureCalls[ms.name] != want {
					s.Fail("failure-report-count", "", "service %s is %v but Failure() was reported %d times", ms.name, ms.last, failureCalls[ms.name])
				}
			}
			if useFW {
				nFailed := 0
				for _, ms := range svcs {
					if ms.last == services.Failed {
						nFailed++
						found := 0
						for _, e := range fwErrs {
							if errors.Is(e, ms.svc.FailureCase()) && strings.Contains(e.Error(), ms.name) {
								found++
							}
						}
						if found != 1 {
							s.Fail("failure-watcher", "", "failure of %s delivered %d times by the FailureWatcher: %v", ms.name, found, fwErrs)
						}
					}
				}
				if len(fwErrs) != nFailed {
					s.Fail("failure-watcher", "", "%d services failed, FailureWatcher delivered %d errors", nFailed, len(fwErrs))
				}
			}
		} else if stoppedCalls > 0 {
			s.Fail("stopped-early", "", "Stopped() called but services are %s", describeMgr(svcs))
		}
	}

	for s.Budget() {
		s.Wait()
		check()
		observation()
		names := s.Parked()
		var acts []sim.Action
		if !parentCancelled && startReturned {
			acts = append(acts, sim.Action{Name: "cancel-parent", Weight: 1, Run: func() {
				parentCancelled = true
				s.Fault("parent-context-cancel")
				cancelParent()
			}})
		}
		for i, w := range waiters {
			w := w
			if w.invoked && !w.returned && !w.cancelled {
				acts = append(acts, sim.Action{Name: fmt.Sprintf("cancel-waiter-%d", i), Weight: 1, Run: func() {
					w.cancelled = true
					s.Fault("waiter-context-cancel")
					w.cancel()
				}})
			}
		}
		if len(names) == 0 {
			hasCancel := false
			for _, a := range acts {
				if a.Name == "cancel-parent" {
					hasCancel = true
				}
			}
			if !hasCancel || s.Chance(0.5, "finish") {
				break
			}
		}
		total := len(names) * 3
		for _, a := range acts {
			total += a.Weight
		}
		v := s.Choose(total, "step")
		if v >= len(names)*3 {
			v -= len(names) * 3
			for _, a := range acts {
				if v < a.Weight {
					s.Do(a.Name, a.Run)
					break
				}
				v -= a.Weight
			}
			continue
		}
		nm := names[v/3]
		if strings.Contains(nm, "-fn-") && !strings.HasPrefix(nm, "y:") {
			o := &fnOutcome{}
			switch {
			case strings.HasSuffix(nm, "-fn-run"):
				switch s.Choose(4, "run-outcome") {
				case 0, 1:
					o.waitCtx = true
				case 3:
					o.err = errors.New(nm + "-error")
					s.Fault("function-error")
				}
			default:
				if s.Chance(0.3, "fn-error") {
					o.err = errors.New(nm + "-error")
					s.Fault("function-error")
				}
			}
			outcomes[nm] = o
		}
		s.Release(nm)
	}
	s.Wait()
	check()
	observation()
	for _, ms := range svcs {
		for _, f := range []string{"-fn-start", "-fn-run", "-fn-stop"} {
			if outcomes[ms.name+f] == nil {
				outcomes[ms.name+f] = &fnOutcome{}
			}
		}
	}
	for i := 0; i < 600 && len(s.Parked()) > 0; i++ {
		names := s.Parked()
		s.Release(names[s.Choose(len(names), "final-drain")])
		check()
		observation()
	}
	if len(s.Parked()) == 0 {
		check()
		observation()
		if startAsyncErr == nil && startReturned && (stopInvoked || parentCancelled) && !mgr.IsStopped() {
			s.Fail("manager-not-stopped", "", "manager was stopped and every function returned, services are %s", describeMgr(svcs))
		}
	}
	if n >= 2 && s.Probes["l2-yield"] > 0 && s.Probes["manager-observation-point"] > 0 && anyIn(func(ms *mgrSvc) bool { return ms.visited[services.Stopping] || ms.visited[services.Failed] }) {
		s.Nontrivial = true
	}
	s.Note("services=%s healthyCalls=%d stoppedCalls=%d failures=%v fw=%v/%d startErr=%v", describeMgr(svcs), healthyCalls, stoppedCalls, failureCalls, useFW, len(fwErrs), startAsyncErr)
	s.State(describeMgr(svcs), healthyCalls, stoppedCalls, len(fwErrs))
}

func describeMgr(svcs []*mgrSvc) string {
	var b []string
	for _, ms := range svcs {
		b = append(b, ms.name+"="+ms.last.String())
	}
	return strings.Join(b, " ")
}

func fmtByState(by map[services.State][]services.Service) string {
	var out []string
	for st, l := range by {
		var names []string
		for _, sv := range l {
			names = append(names, services.DescribeService(sv))
		}
		sort.Strings(names)
		out = append(out, fmt.Sprintf("%v=%v", st, names))
	}
	sort.Strings(out)
	return strings.Join(out, " ")
}
