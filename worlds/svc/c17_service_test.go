package wsvc

// C17 (part 1) – one service driven by concurrent clients.
//
// Real code: services.BasicService (also through NewIdleService / NewTimerService), compiled from a
// generated copy with lock-point yields (L2) so that the scheduler also interleaves at every
// acquisition of the state mutex.
// Stub: the starting / running / stopping functions (tasks; outcome chosen by the scheduler), the
// listeners (every callback is a task), the clients.

import (
	"context"
	"errors"
	"fmt"
	"strings"
	"time"

	"github.com/grafana/dskit/services"
	"github.com/grafana/dskit/zzverif/sim"
)

func init() {
	sim.Register("C17", "service", 5, runService)
}

type lstn struct {
	id            int
	seen          []string
	active        int
	loState, hiState services.State // polled state before AddListener was invoked / after it returned
	hiSet            bool
	added         bool
	removed       bool
	removeStarted bool
	remove        func()
}

type svcModel struct {
	s    *sim.Sim
	name string
	svc  *services.BasicService

	startCalls, runCalls, stopCalls int
	startRet, runRet, stopRet       bool
	startErr, runErr, stopErr       error
	stopArg                         error
	ctxErrAtStopping                error
	ctxCancelledAtStartReturn       bool
	svcCtx                          context.Context
	order                           []string

	startAsyncOK int
	observed     []services.State
	listeners    []*lstn
	nilStart, nilRun, nilStop bool
	iterations   int
	ctxChecked   bool
	allStartsReturned      bool
	parentCancelledAtStart bool
	parentCancelled        bool
}

var allowedEdges = map[[2]services.State]bool{
	{services.New, services.Starting}:        true,
	{services.New, services.Terminated}:      true,
	{services.Starting, services.Running}:    true,
	{services.Starting, services.Stopping}:   true,
	{services.Starting, services.Failed}:     true,
	{services.Running, services.Stopping}:    true,
	{services.Stopping, services.Terminated}: true,
	{services.Stopping, services.Failed}:     true,
}

// The six complete life cycles the statement allows.
var svcPaths = [][]services.State{
	{services.New, services.Terminated},
	{services.New, services.Starting, services.Failed},
	{services.New, services.Starting, services.Stopping, services.Terminated},
	{services.New, services.Starting, services.Stopping, services.Failed},
	{services.New, services.Starting, services.Running, services.Stopping, services.Terminated},
	{services.New, services.Starting, services.Running, services.Stopping, services.Failed},
}

func pathHas(p []services.State, st services.State) bool { return pathPos(p, st) >= 0 }

func pathPos(p []services.State, st services.State) int {
	for i, x := range p {
		if x == st {
			return i
		}
	}
	return -1
}

func pathTransitions(p []services.State) []string {
	var out []string
	for i := 1; i < len(p); i++ {
		from, to := p[i-1], p[i]
		switch to {
		case services.Starting, services.Running:
			out = append(out, to.String())
		default:
			out = append(out, to.String()+"("+from.String()+")")
		}
	}
	return out
}

// candidates returns the life cycles that are consistent with everything observed so far: the
// results of the API calls, the invocations and return values of the three functions, and the
// sequence of states polled at quiescent points.
func (m *svcModel) candidates() [][]services.State {
	var out [][]services.State
	for _, p := range svcPaths {
		started := pathHas(p, services.Starting)
		ran := pathHas(p, services.Running)
		failedFromStarting := len(p) == 3 && p[2] == services.Failed
		endsFailed := p[len(p)-1] == services.Failed
		throughStopping := pathHas(p, services.Stopping)
		if m.startAsyncOK > 0 && !started {
			continue
		}
		if m.allStartsReturned && m.startAsyncOK == 0 && started {
			continue
		}
		if (m.startCalls > 0 || m.runCalls > 0 || m.stopCalls > 0) && !started {
			continue
		}
		if m.nilStart && failedFromStarting {
			continue
		}
		if m.startRet {
			if (m.startErr != nil) != failedFromStarting {
				continue
			}
			if m.startErr == nil && !m.nilRun && m.ctxCancelledAtStartReturn == ran {
				continue
			}
			if m.startErr == nil && m.nilRun && m.ctxCancelledAtStartReturn && ran {
				continue
			}
			if m.startErr == nil && m.nilRun && !m.ctxCancelledAtStartReturn && !ran {
				continue
			}
		}
		if m.runCalls > 0 && !ran {
			continue
		}
		if m.stopCalls > 0 && !throughStopping {
			continue
		}
		if throughStopping {
			anyErr := (m.runRet && m.runErr != nil) || (m.stopRet && m.stopErr != nil)
			if anyErr && !endsFailed {
				continue
			}
			if m.stopRet && m.stopErr == nil && m.runErr == nil && endsFailed {
				continue
			}
		}
		// polled states must appear in order
		pos := -1
		ok := true
		for _, st := range m.observed {
			i := pathPos(p, st)
			if i < 0 || i < pos {
				ok = false
				break
			}
			pos = i
		}
		if ok {
			out = append(out, p)
		}
	}
	return out
}

func (m *svcModel) cur() services.State {
	if len(m.observed) == 0 {
		return services.New
	}
	return m.observed[len(m.observed)-1]
}

// possibly / definitely: has the service been in st at or before the currently polled state,
// in some / in every life cycle that is still consistent.
func (m *svcModel) possibly(st services.State) bool {
	for _, p := range m.candidates() {
		if i := pathPos(p, st); i >= 0 && i <= pathPos(p, m.cur()) {
			return true
		}
	}
	return false
}

func (m *svcModel) definitely(st services.State) bool {
	cs := m.candidates()
	for _, p := range cs {
		if i := pathPos(p, st); i < 0 || i > pathPos(p, m.cur()) {
			return false
		}
	}
	return len(cs) > 0
}

func (m *svcModel) visited(st services.State) bool { return m.possibly(st) }

func (m *svcModel) observe() {
	st := m.svc.State()
	if len(m.observed) == 0 || m.cur() != st {
		m.observed = append(m.observed, st)
	}
	if len(m.candidates()) == 0 {
		m.s.Fail("illegal-history", "", "%s: no legal life cycle matches: polled states %v, StartAsync ok=%d, start(calls=%d ret=%v err=%v ctxCancelledAtReturn=%v) run(calls=%d ret=%v err=%v) stop(calls=%d ret=%v err=%v)",
			m.name, m.observed, m.startAsyncOK, m.startCalls, m.startRet, m.startErr, m.ctxCancelledAtStartReturn, m.runCalls, m.runRet, m.runErr, m.stopCalls, m.stopRet, m.stopErr)
	}
}

type fnOutcome struct {
	err     error
	waitCtx bool
}

func isTerminalState(st services.State) bool {
	return st == services.Terminated || st == services.Failed
}

func runService(s *sim.Sim) {
	s.EnableL2(sim.Pick(s, "l2-percent", 100, 60, 0))
	m := &svcModel{s: s, name: "svc"}
	kind := s.Choose(4, "kind") // 0,1 basic; 2 idle; 3 timer
	outcomes := map[string]*fnOutcome{}

	startFn := func(ctx context.Context) error {
		m.startCalls++
		m.order = append(m.order, "start")
		m.svcCtx = ctx
		s.Event("fn start")
		s.Park("fn-start")
		o := outcomes["fn-start"]
		m.startRet, m.startErr = true, o.err
		m.ctxCancelledAtStartReturn = ctx.Err() != nil
		s.Event("fn start returns %v ctxcancelled=%v", o.err, m.ctxCancelledAtStartReturn)
		return o.err
	}
	runFn := func(ctx context.Context) error {
		m.runCalls++
		m.order = append(m.order, "run")
		s.Event("fn run")
		s.Park("fn-run")
		o := outcomes["fn-run"]
		if o.waitCtx {
			<-ctx.Done()
			s.Park("fn-run-ctxdone")
		}
		m.runRet, m.runErr = true, o.err
		s.Event("fn run returns %v", o.err)
		return o.err
	}
	stopFn := func(failure error) error {
		m.stopCalls++
		m.order = append(m.order, "stop")
		m.stopArg = failure
		if m.svcCtx != nil {
			m.ctxErrAtStopping = m.svcCtx.Err()
			m.ctxChecked = true
		}
		s.Event("fn stop arg=%v", failure)
		s.Park("fn-stop")
		o := outcomes["fn-stop"]
		m.stopRet, m.stopErr = true, o.err
		s.Event("fn stop returns %v", o.err)
		return o.err
	}
	iterFn := func(ctx context.Context) error {
		m.iterations++
		s.Park(fmt.Sprintf("fn-iter-%03d", m.iterations))
		o := outcomes["fn-iter"]
		if o != nil && o.err != nil {
			m.runRet, m.runErr = true, o.err
			return o.err
		}
		return nil
	}
	interval := 10 * time.Second
	switch kind {
	case 0, 1:
		var a services.StartingFn = startFn
		var b services.RunningFn = runFn
		var c services.StoppingFn = stopFn
		if s.Chance(0.15, "nil-start") {
			a, m.nilStart = nil, true
		}
		if s.Chance(0.15, "nil-run") {
			b, m.nilRun = nil, true
		}
		if s.Chance(0.15, "nil-stop") {
			c, m.nilStop = nil, true
		}
		m.svc = services.NewBasicService(a, b, c)
	case 2:
		m.svc = services.NewIdleService(startFn, stopFn)
		m.nilRun = true // the built-in running function waits for the context
	case 3:
		m.svc = services.NewTimerService(interval, startFn, iterFn, stopFn)
		m.nilRun = true
	}
	parentCause := errors.New("parent-cancelled")
	parent, cancelParent := context.WithCancelCause(context.Background())
	s.OnEnd(func() { cancelParent(nil); m.svc.StopAsync() })
	_ = parentCause

	// ---- clients
	type waiter struct {
		kind      string
		ctx       context.Context
		cancel    context.CancelFunc
		cancelled bool
		invoked   bool
		returned  bool
		err       error
		stateAtInvoke services.State
	}
	var waiters []*waiter
	nOps := s.Range(3, 9, "ops")
	startInvoked, startReturnedN, startOps := 0, 0, 0
	stopInvoked, stopReturned := 0, 0
	type clientOp struct {
		name string
		run  func()
	}
	for k := 0; k < nOps; k++ {
		opKind := s.Choose(7, "op")
		name := fmt.Sprintf("c%d", k)
		switch opKind {
		case 0:
			startOps++
			s.Go(name+"-start", func() {
				startInvoked++
				err := m.svc.StartAsync(parent)
				s.Event("%s StartAsync -> %v", name, err)
				if err == nil {
					m.startAsyncOK++
				}
				startReturnedN++
			})
		case 1, 2:
			s.Go(name+"-stop", func() {
				stopInvoked++
				m.svc.StopAsync()
				stopReturned++
				s.Event("%s StopAsync done", name)
			})
		case 3:
			l := &lstn{id: len(m.listeners)}
			m.listeners = append(m.listeners, l)
			cb := func(what string) {
				s.Locked(func() {
					l.active++
					if l.active > 1 {
						s.Fail("listener-concurrent-callbacks", "", "listener %d: callback %s started while another callback was still running", l.id, what)
					}
				})
				s.Event("listener %d <- %s", l.id, what)
				s.Park(fmt.Sprintf("L%d-cb-%d", l.id, len(l.seen)))
				s.Locked(func() {
					l.seen = append(l.seen, what)
					l.active--
				})
			}
			listener := services.NewListener(
				func() { cb("Starting") },
				func() { cb("Running") },
				func(from services.State) { cb("Stopping(" + from.String() + ")") },
				func(from services.State) { cb("Terminated(" + from.String() + ")") },
				func(from services.State, err error) { cb("Failed(" + from.String() + ")") },
			)
			s.Go(name+"-addlistener", func() {
				l.loState = m.cur()
				l.remove = m.svc.AddListener(listener)
				l.added = true
				s.Event("%s AddListener done", name)
			})
			if s.Chance(0.4, "remove-listener") {
				s.Go(name+"-rmlistener", func() {
					if l.remove == nil {
						return
					}
					l.removeStarted = true
					l.remove()
					l.removed = true
					s.Event("%s remove listener done", name)
				})
			}
		case 4, 5:
			w := &waiter{kind: "running"}
			if opKind == 5 {
				w.kind = "terminated"
			}
			w.ctx, w.cancel = context.WithCancel(context.Background())
			waiters = append(waiters, w)
			s.OnEnd(w.cancel)
			s.Go(name+"-await-"+w.kind, func() {
				w.invoked = true
				w.stateAtInvoke = m.cur()
				if w.kind == "running" {
					w.err = m.svc.AwaitRunning(w.ctx)
				} else {
					w.err = m.svc.AwaitTerminated(w.ctx)
				}
				w.returned = true
				s.Event("%s Await%s -> %v", name, w.kind, w.err)
			})
		case 6:
			// reserved: parent cancel is a root action below
		}
	}
	firstErr := func() error {
		if m.startErr != nil {
			return m.startErr
		}
		if m.runErr != nil {
			return m.runErr
		}
		return m.stopErr
	}

	check := func() {
		m.allStartsReturned = startReturnedN == startOps
		m.observe()
		// listeners that were just added: record the upper bound of their registration point
		for _, l := range m.listeners {
			if l.added && !l.hiSet {
				l.hiState, l.hiSet = m.cur(), true
			}
		}
		if m.startCalls > 1 || m.runCalls > 1 || m.stopCalls > 1 {
			s.Fail("function-called-twice", "", "start=%d run=%d stop=%d", m.startCalls, m.runCalls, m.stopCalls)
		}
		if got := strings.Join(m.order, ","); !strings.HasPrefix("start,run,stop", got) && !strings.HasPrefix("start,stop", got) &&
			!strings.HasPrefix("run,stop", got) && !strings.HasPrefix("stop", got) {
			s.Fail("function-order", "", "functions ran in order %q", got)
		}
		if m.stopCalls > 0 {
			if !m.nilStart && (m.startCalls == 0 || !m.startRet || m.startErr != nil) {
				s.Fail("stopping-without-successful-start", "", "stopping function ran although starting did not succeed (calls=%d returned=%v err=%v)", m.startCalls, m.startRet, m.startErr)
			}
			if m.ctxChecked && m.ctxErrAtStopping == nil {
				s.Fail("context-live-in-stopping", "", "the service context was not cancelled when the stopping function started")
			}
			if !m.nilRun && m.runCalls > 0 && m.stopArg != m.runErr {
				s.Fail("stopping-argument", "", "stopping function got %v, running returned %v", m.stopArg, m.runErr)
			}
		}
		if m.runCalls > 0 && !m.nilStart && (m.startErr != nil || !m.startRet) {
			s.Fail("running-without-successful-start", "", "running function ran although starting did not succeed")
		}
		st := m.cur()
		// state vs. functions
		if m.startCalls > 0 && !m.visited(services.Starting) {
			s.Fail("function-outside-state", "", "starting function ran but the service never was Starting")
		}
		if m.runCalls > 0 && !m.visited(services.Running) {
			s.Fail("function-outside-state", "", "running function ran but the service never was Running")
		}
		if m.stopCalls > 0 && !m.visited(services.Stopping) {
			s.Fail("function-outside-state", "", "stopping function ran but the service never was Stopping")
		}
		if st == services.Terminated && firstErr() != nil {
			s.Fail("terminated-despite-error", "", "service Terminated although a function failed with %v", firstErr())
		}
		if st == services.Failed {
			fc := m.svc.FailureCase()
			if fe := firstErr(); fe == nil || fc != fe {
				s.Fail("failure-cause", "", "service Failed with cause %v, first function error was %v", fc, fe)
			}
		}
		if st != services.Failed && m.svc.FailureCase() != nil {
			s.Fail("failure-cause", "", "FailureCase()=%v in state %v", m.svc.FailureCase(), st)
		}
		// waiters
		for _, w := range waiters {
			if !w.invoked {
				continue
			}
			target := services.Running
			if w.kind == "terminated" {
				target = services.Terminated
			}
			reached := m.visited(target)
			unreachable := false
			switch target {
			case services.Running:
				unreachable = m.visited(services.Stopping) || m.visited(services.Terminated) || m.visited(services.Failed)
			case services.Terminated:
				unreachable = m.visited(services.Failed)
			}
			if w.returned {
				switch {
				case w.err == nil && !reached:
					s.Fail("waiter-early", "", "Await%s returned nil but the service never reached %v (states %v)", w.kind, target, m.observed)
				case w.err != nil && errors.Is(w.err, context.Canceled) && w.cancelled:
				case w.err != nil && !unreachable && !reached:
					s.Fail("waiter-error-early", "", "Await%s returned %v while %v was still reachable (states %v)", w.kind, w.err, target, m.observed)
				case w.err != nil && target == services.Terminated && !unreachable:
					s.Fail("waiter-error-early", "", "AwaitTerminated returned %v but the service did not fail (states %v)", w.err, m.observed)
				}
				if w.err != nil && !errors.Is(w.err, context.Canceled) && st == services.Failed && (w.kind == "terminated" || w.stateAtInvoke == services.Failed) {
					if fe := firstErr(); fe != nil && !errors.Is(w.err, fe) {
						s.Fail("waiter-cause", "", "Await%s returned %v which does not carry the first failure %v", w.kind, w.err, fe)
					}
				}
			}
		}
	}

	quiescentChecks := func() {
		// only when no lock-point task is parked: everything that was triggered has been applied
		st := m.cur()
		for _, w := range waiters {
			if !w.invoked || w.returned {
				continue
			}
			target := services.Running
			if w.kind == "terminated" {
				target = services.Terminated
			}
			done := false
			switch target {
			case services.Running:
				done = st != services.New && st != services.Starting
			case services.Terminated:
				done = st == services.Terminated || st == services.Failed
			}
			if done || w.cancelled {
				s.Fail("waiter-stuck", "", "Await%s has not returned although the service is %v (cancelled=%v)", w.kind, st, w.cancelled)
			}
		}
		if stopReturned > 0 && st == services.New {
			s.Fail("stop-ignored", "", "StopAsync returned but the service is still New")
		}
	}

	for s.Budget() {
		s.Wait()
		check()
		if len(s.L2Parked()) == 0 {
			quiescentChecks()
		}
		names := s.Parked()
		var acts []sim.Action
		if !m.parentCancelled && startInvoked > 0 {
			acts = append(acts, sim.Action{Name: "cancel-parent", Weight: 1, Run: func() {
				m.parentCancelled = true
				s.Fault("parent-context-cancel")
				cancelParent(parentCause)
			}})
		}
		for i, w := range waiters {
			w := w
			if w.invoked && !w.returned && !w.cancelled {
				acts = append(acts, sim.Action{Name: fmt.Sprintf("cancel-waiter-%d", i), Weight: 1, Run: func() {
					w.cancelled = true
					s.Fault("waiter-context-cancel")
					w.cancel()
				}})
			}
		}
		if kind == 3 && m.visited(services.Running) && !m.visited(services.Stopping) {
			acts = append(acts, sim.Action{Name: "advance", Weight: 2, Run: nil})
		}
		if len(names) == 0 {
			// nothing parked: only a service sitting in Running with a context-waiting run function remains
			onlyAdvance := true
			for _, a := range acts {
				if a.Name == "cancel-parent" {
					onlyAdvance = false
				}
			}
			if onlyAdvance || s.Chance(0.5, "finish") {
				break
			}
		}
		// set function outcomes at release time
		pick := func() string {
			total := len(names) * 3
			for _, a := range acts {
				total += a.Weight
			}
			v := s.Choose(total, "step")
			if v < len(names)*3 {
				return names[v/3]
			}
			v -= len(names) * 3
			for _, a := range acts {
				if v < a.Weight {
					return "!" + a.Name
				}
				v -= a.Weight
			}
			return ""
		}
		n := pick()
		switch {
		case n == "!advance":
			s.Advance(interval)
		case strings.HasPrefix(n, "!"):
			for _, a := range acts {
				if "!"+a.Name == n {
					s.Do(a.Name, a.Run)
				}
			}
		default:
			switch {
			case n == "fn-start", n == "fn-stop":
				o := &fnOutcome{}
				if s.Chance(0.3, "fn-error") {
					o.err = fmt.Errorf("%s-error", n)
					s.Fault("function-error")
				}
				outcomes[n] = o
			case n == "fn-run":
				o := &fnOutcome{}
				switch s.Choose(4, "run-outcome") {
				case 0, 1:
					o.waitCtx = true
				case 2:
				case 3:
					o.err = errors.New("fn-run-error")
					s.Fault("function-error")
				}
				outcomes[n] = o
			case strings.HasPrefix(n, "fn-iter-"):
				o := &fnOutcome{}
				if s.Chance(0.2, "iter-error") {
					o.err = errors.New("fn-iter-error")
					s.Fault("function-error")
				}
				outcomes["fn-iter"] = o
			}
			s.Release(n)
		}
	}
	s.Wait()
	check()
	// ---- end of run: drain everything that can still move, then final obligations
	if outcomes["fn-start"] == nil {
		outcomes["fn-start"] = &fnOutcome{}
	}
	if outcomes["fn-run"] == nil {
		outcomes["fn-run"] = &fnOutcome{}
	}
	if outcomes["fn-stop"] == nil {
		outcomes["fn-stop"] = &fnOutcome{}
	}
	if outcomes["fn-iter"] == nil {
		outcomes["fn-iter"] = &fnOutcome{}
	}
	for i := 0; i < 400 && len(s.Parked()) > 0; i++ {
		names := s.Parked()
		s.Release(names[s.Choose(len(names), "final-drain")])
		check()
	}
	if len(s.Parked()) == 0 {
		check()
		quiescentChecks()
		cands := m.candidates()
		okAll := false
		var why string
		for _, p := range cands {
			if pathPos(p, m.cur()) != len(p)-1 && isTerminalState(m.cur()) {
				continue
			}
			trans := pathTransitions(p)[:pathPos(p, m.cur())]
			okPath := true
			for _, l := range m.listeners {
				if !l.added {
					continue
				}
				lo, hi := pathPos(p, l.loState), pathPos(p, m.cur())
				if l.hiSet {
					hi = pathPos(p, l.hiState)
				}
				ok := false
				for k := lo; k <= hi && k <= len(trans); k++ {
					want := trans[k:]
					if l.removeStarted {
						if len(l.seen) <= len(want) && strings.Join(want[:len(l.seen)], ",") == strings.Join(l.seen, ",") {
							ok = true
						}
					} else if strings.Join(want, ",") == strings.Join(l.seen, ",") {
						ok = true
					}
				}
				if !ok {
					okPath = false
					why = fmt.Sprintf("listener %d (registered between %v and %v, removed=%v) saw %v; service transitions were %v", l.id, l.loState, p[hi], l.removeStarted, l.seen, trans)
				}
			}
			if okPath {
				okAll = true
			}
		}
		if !okAll && len(cands) > 0 {
			s.Fail("listener-sequence", "", "%s", why)
		}
		// the service must have run to completion if anything stopped it
		st := m.cur()
		if (stopReturned > 0 || m.parentCancelled) && m.startAsyncOK > 0 && st != services.Terminated && st != services.Failed {
			s.Fail("not-terminated", "", "service was stopped and every function returned, but its state is %v", st)
		}
		if m.startAsyncOK > 1 {
			s.Fail("started-twice", "", "StartAsync succeeded %d times", m.startAsyncOK)
		}
		if startInvoked > 0 && m.startAsyncOK == 0 && !m.visited(services.Terminated) {
			s.Fail("start-rejected", "", "no StartAsync succeeded although the service was never stopped before (states %v)", m.observed)
		}
		if m.stopCalls == 0 && !m.nilStop && m.startRet && m.startErr == nil && (st == services.Terminated || st == services.Failed) {
			s.Fail("stopping-skipped", "", "starting succeeded and the service is %v but the stopping function never ran", st)
		}
		if m.nilStart && !m.nilStop && m.stopCalls == 0 && m.definitely(services.Stopping) && (st == services.Terminated || st == services.Failed) {
			s.Fail("stopping-skipped", "", "service went through Stopping but the stopping function never ran")
		}
	}
	if s.Probes["l2-yield"] > 0 && (stopInvoked > 0 || m.parentCancelled) && m.visited(services.Starting) {
		s.Nontrivial = true
	}
	s.Note("kind=%d states=%v order=%v startAsyncOK=%d stops=%d m.parentCancelled=%v listeners=%d waiters=%d", kind, m.observed, m.order, m.startAsyncOK, stopInvoked, m.parentCancelled, len(m.listeners), len(waiters))
	s.State(kind, fmt.Sprint(m.observed), m.order, len(m.listeners))
}
