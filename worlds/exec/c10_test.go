package wexec

// C10 – batched quorum writes (ring.DoBatchWithOptions).
//
// Real code: ring.DoBatchWithOptions, batchTracker/itemTracker, concurrency.ReusableGoroutinesPool.
// Stub: the DoBatchRing (a table from key index to replica set + tolerance), the replicas
// (callbacks parked by the scheduler, outcome chosen by the scheduler).

import (
	"context"
	"errors"
	"fmt"
	"sort"
	"strings"

	"github.com/grafana/dskit/concurrency"
	"github.com/grafana/dskit/ring"
	"github.com/grafana/dskit/zzverif/sim"
)

type simErr struct {
	id       string
	client   bool
	canceled bool // the replica reports that its own handling of the request was cancelled
}

func (e *simErr) Error() string { return e.id }
func (e *simErr) Unwrap() error {
	if e.canceled {
		return context.Canceled
	}
	return nil
}

type stubRing struct {
	n      int // instances count reported
	rf     int
	sets   map[uint32]ring.ReplicationSet
	getErr map[uint32]error
	onGet  func(key uint32)
}

func (r *stubRing) Get(key uint32, _ ring.Operation, _ []ring.InstanceDesc, _, _ []string) (ring.ReplicationSet, error) {
	if r.onGet != nil {
		r.onGet(key)
	}
	if e := r.getErr[key]; e != nil {
		return ring.ReplicationSet{}, e
	}
	return r.sets[key], nil
}
func (r *stubRing) ReplicationFactor() int { return r.rf }
func (r *stubRing) InstancesCount() int    { return r.n }

type c10key struct {
	replicas []int
	maxErr   int
	succ     int
	failC    int
	failS    int
	done     int      // replica calls completed
	errs     []error  // errors returned by completed replicas of this key
}

func (k *c10key) minSucc() int { return len(k.replicas) - k.maxErr }
func (k *c10key) hasQuorum() bool { return k.succ >= k.minSucc() }
func (k *c10key) failed() bool {
	return k.failC > k.maxErr || k.failS > k.maxErr || (k.done == len(k.replicas) && k.succ < k.minSucc())
}

func init() {
	sim.Register("C10", "dobatch", 1, runC10)
}

func runC10(s *sim.Sim) {
	nInst := s.Range(1, 6, "instances")
	rf := s.Range(1, 5, "rf")
	if rf > nInst {
		rf = nInst
	}
	nKeys := sim.Pick(s, "keys", 2, 1, 3, 4, 0)
	// spawner: 0 default, 1 custom spawner that starts work late (modelled as the callback parking
	// before it is counted as started: DoBatch cannot observe anything between spawn and callback
	// entry, and naming the parked task by instance keeps replays independent of Go's map order),
	// 2 concurrency.ReusableGoroutinesPool
	spawner := s.Choose(3, "spawner")
	zeroInstances := s.Chance(0.02, "zero-instances")
	sr := &stubRing{n: nInst, rf: rf, sets: map[uint32]ring.ReplicationSet{}, getErr: map[uint32]error{}}
	if zeroInstances {
		sr.n = 0
	}
	insts := make([]ring.InstanceDesc, nInst)
	for i := range insts {
		insts[i] = ring.InstanceDesc{Addr: fmt.Sprintf("i%d", i), Id: fmt.Sprintf("i%d", i)}
	}
	keys := make([]*c10key, nKeys)
	keyVals := make([]uint32, nKeys)
	expect := map[string][]int{} // instance -> indexes
	var getErrKey = -1
	for k := 0; k < nKeys; k++ {
		keyVals[k] = uint32(k*1000 + 7)
		size := rf
		if s.Chance(0.35, "short-replica-set") {
			// fewer replicas than the replication factor (instances that left / are unhealthy)
			size = s.Range(1, rf, "replica-count")
		}
		p := s.Perm(nInst, "replicas")[:size]
		sort.Ints(p)
		ck := &c10key{replicas: p}
		// tolerance: usually the ring's (len - (rf/2+1)), sometimes any value in [0,len-1]
		ck.maxErr = len(p) - (rf/2 + 1) // the ring's rule: a majority of the replication factor must succeed
		if ck.maxErr < 0 {
			ck.maxErr = 0
		}
		if s.Chance(0.3, "odd-tolerance") {
			ck.maxErr = s.Choose(len(p), "tolerance")
		}
		keys[k] = ck
		set := ring.ReplicationSet{MaxErrors: ck.maxErr}
		for _, i := range p {
			set.Instances = append(set.Instances, insts[i])
		}
		sr.sets[keyVals[k]] = set
	}
	if nKeys > 0 && s.Chance(0.04, "get-error") {
		getErrKey = s.Choose(nKeys, "get-error-key")
		sr.getErr[keyVals[getErrKey]] = &simErr{id: "get-error"}
	}
	if getErrKey < 0 && !zeroInstances {
		for k, ck := range keys {
			for _, i := range ck.replicas {
				expect[insts[i].Addr] = append(expect[insts[i].Addr], k)
			}
		}
	}
	shared := false
	for _, idx := range expect {
		if len(idx) >= 2 {
			shared = true
		}
	}

	cause := &simErr{id: "caller-cancelled"}
	ctx, cancel := context.WithCancelCause(context.Background())
	s.OnEnd(func() { cancel(nil) })
	cancelled := false

	started := map[string]int{}
	finished := map[string]int{}
	calls := map[string][]int{}
	cleanups := 0
	outcomes := map[string]error{}

	callback := func(inst ring.InstanceDesc, indexes []int) error {
		if spawner == 1 {
			s.Park("start-" + inst.Addr)
		}
		s.Locked(func() {
			started[inst.Addr]++
			calls[inst.Addr] = append([]int(nil), indexes...)
		})
		s.Event("call %s %v", inst.Addr, indexes)
		s.Park("cb-" + inst.Addr)
		// the outcome was fixed by the scheduler when it released us
		err := outcomes[inst.Addr]
		s.Locked(func() { finished[inst.Addr]++ })
		for _, k := range indexes {
			if k < 0 || k >= len(keys) {
				continue
			}
			ck := keys[k]
			ck.done++
			if err == nil {
				ck.succ++
			} else {
				ck.errs = append(ck.errs, err)
				if err.(*simErr).client {
					ck.failC++
				} else {
					ck.failS++
				}
			}
		}
		s.Event("done %s err=%v", inst.Addr, err)
		return err
	}
	opts := ring.DoBatchOptions{
		Cleanup: func() {
			s.Event("cleanup")
			s.Locked(func() {
				cleanups++
				for a, n := range started {
					if finished[a] != n {
						s.Fail("cleanup-before-calls-finished", "", "cleanup ran while the call to %s had not returned", a)
					}
				}
			})
		},
		IsClientError: func(err error) bool {
			var se *simErr
			return errors.As(err, &se) && se.client
		},
	}
	var pool *concurrency.ReusableGoroutinesPool
	switch spawner {
	case 1:
		opts.Go = func(f func()) { go f() }
	case 2:
		pool = concurrency.NewReusableGoroutinesPool(s.Range(1, 3, "pool"))
		opts.Go = pool.Go
		s.OnEnd(pool.Close)
	}

	// fault: the caller's context ends while DoBatch is still mapping keys to replicas
	cancelDuringLookup := -1
	if nKeys > 0 && !zeroInstances && s.Chance(0.06, "cancel-during-lookup") {
		cancelDuringLookup = s.Choose(nKeys, "cancel-at-key")
	}
	returned, entered := false, false
	var retErr error
	preCancelled := false
	if s.Chance(0.05, "cancel-before-call") {
		cancel(cause)
		cancelled, preCancelled = true, true
		s.Fault("ctx-cancel")
	}
	if cancelDuringLookup >= 0 {
		sr.onGet = func(key uint32) {
			if key == keyVals[cancelDuringLookup] && !cancelled {
				cancelled, preCancelled = true, true
				s.Fault("ctx-cancel-during-lookup")
				cancel(cause)
			}
		}
	}
	s.Go("dobatch", func() {
		entered = true
		retErr = ring.DoBatchWithOptions(ctx, ring.Write, sr, keyVals, callback, opts)
		returned = true
		s.Event("return %v", retErr)
	})

	nextErr := 0
	sawOK, sawErr := false, false
	checkedReturn := false
	check := func() {
		anyFailed := false
		for _, ck := range keys {
			if ck.failed() {
				anyFailed = true
			}
		}
		if returned && !checkedReturn {
			checkedReturn = true
			switch {
			case zeroInstances:
				if retErr == nil {
					s.Fail("no-instances-success", "", "DoBatch succeeded with InstancesCount()==0")
				}
			case retErr == nil:
				if preCancelled {
					s.Fail("success-with-cancelled-context", "", "context was cancelled before the call, DoBatch returned nil")
				}
				if getErrKey >= 0 {
					s.Fail("success-despite-lookup-error", "", "lookup of key %d failed, DoBatch returned nil", getErrKey)
				}
				for k, ck := range keys {
					if !ck.hasQuorum() {
						s.Fail("success-without-quorum", "", "returned nil but key #%d has %d/%d acknowledgements (replicas %v, tolerance %d)", k, ck.succ, ck.minSucc(), ck.replicas, ck.maxErr)
					}
				}
			default:
				ok := false
				if cancelled && retErr == error(cause) {
					ok = true
				}
				if getErrKey >= 0 && retErr == sr.getErr[keyVals[getErrKey]] {
					ok = true
				}
				for _, ck := range keys {
					if ck.failed() {
						for _, e := range ck.errs {
							if e == retErr {
								ok = true
							}
						}
					}
				}
				if !ok {
					s.Fail("unjustified-error", "", "returned error %v: context cancelled=%v, keys=%s", retErr, cancelled, describeKeys(keys))
				}
			}
		}
		if !entered {
			return
		}
		if anyFailed && !returned {
			s.Fail("no-prompt-error", "", "a key is beyond quorum but DoBatch has not returned: %s", describeKeys(keys))
		}
		if cancelled && !returned {
			s.Fail("no-return-after-cancel", "", "context ended but DoBatch has not returned")
		}
	}

	for s.Budget() {
		s.Wait()
		check()
		var acts []sim.Action
		if !cancelled {
			acts = append(acts, sim.Action{Name: "cancel-ctx", Weight: 1, Run: func() {
				cancelled = true
				if !entered {
					preCancelled = true
				}
				s.Fault("ctx-cancel")
				cancel(cause)
			}})
		}
		names := s.Parked()
		if len(names) == 0 {
			break
		}
		// choose: release a parked task (callbacks get their outcome now) or cancel
		total := len(names)*4 + len(acts)
		v := s.Choose(total, "step")
		if v >= len(names)*4 {
			a := acts[v-len(names)*4]
			s.Do(a.Name, a.Run)
			continue
		}
		name := names[v/4]
		if strings.HasPrefix(name, "cb-") {
			addr := strings.TrimPrefix(name, "cb-")
			switch s.Choose(3, "outcome") {
			case 0:
				outcomes[addr] = nil
				sawOK = true
			case 1:
				nextErr++
				outcomes[addr] = &simErr{id: fmt.Sprintf("client-error-%d-from-%s", nextErr, addr), client: true}
				sawErr = true
				s.Fault("replica-client-error")
			case 2:
				nextErr++
				outcomes[addr] = &simErr{id: fmt.Sprintf("server-error-%d-from-%s", nextErr, addr)}
				sawErr = true
				s.Fault("replica-server-error")
			}
			if returned {
				s.Probe("call-completed-after-return")
			}
		}
		s.Release(name)
	}
	s.Wait()
	check()
	// everything has completed (no task is parked): final obligations
	if !returned {
		key := ""
		if nKeys == 0 && !zeroInstances && !preCancelled {
			key = "empty-key-list"
		}
		s.Fail("never-returns", key, "all replica calls have returned (%d keys) but DoBatch has not returned", nKeys)
	}
	if cleanups != 1 {
		key := ""
		if nKeys == 0 && !zeroInstances && !preCancelled && !returned {
			key = "empty-key-list"
		}
		s.Fail("cleanup-count", key, "cleanup ran %d times after everything finished", cleanups)
	}
	noCalls := zeroInstances || getErrKey >= 0 || preCancelled
	if noCalls {
		if len(started) != 0 {
			s.Fail("calls-after-early-error", "", "replicas were called although DoBatch failed before starting: %v", started)
		}
	} else {
		for a, idx := range expect {
			if started[a] != 1 {
				s.Fail("replica-call-count", "", "replica %s called %d times, want 1", a, started[a])
			}
			got := append([]int(nil), calls[a]...)
			sort.Ints(got)
			if fmt.Sprint(got) != fmt.Sprint(idx) {
				s.Fail("replica-indexes", "", "replica %s got indexes %v, want %v", a, calls[a], idx)
			}
		}
		for a := range started {
			if _, ok := expect[a]; !ok {
				s.Fail("replica-not-selected", "", "replica %s was called but serves no key", a)
			}
		}
	}
	if shared && sawOK && sawErr {
		s.Nontrivial = true
	}
	s.Note("instances=%d rf=%d keys=%s spawner=%d cancelled=%v returned=%v err=%v", nInst, rf, describeKeys(keys), spawner, cancelled, returned, retErr)
	s.State(describeKeys(keys), cancelled, retErr == nil)
}

func describeKeys(keys []*c10key) string {
	var b strings.Builder
	for k, ck := range keys {
		fmt.Fprintf(&b, "[#%d replicas=%v tol=%d ok=%d cli=%d srv=%d done=%d]", k, ck.replicas, ck.maxErr, ck.succ, ck.failC, ck.failS, ck.done)
	}
	return b.String()
}
