package wexec

// C11 – quorum reads: ring.DoUntilQuorum, DoUntilQuorumWithoutSuccessfulContextCancellation,
// DoMultiUntilQuorumWithoutSuccessfulContextCancellation and the legacy ReplicationSet.Do.
//
// Real code: the functions above, default / zone-aware result and context trackers, hedging ticker.
// Stub: the replicas (call tasks parked by the scheduler; outcome and completion order chosen by the
// scheduler; a replica may ignore the cancellation of its context and answer late), the caller.

import (
	"context"
	"errors"
	"fmt"
	"sort"
	"strings"
	"time"

	"github.com/grafana/dskit/ring"
	"github.com/grafana/dskit/zzverif/sim"
)

func init() {
	sim.Register("C11", "until-quorum", 6, func(s *sim.Sim) { runC11(s, 0) })
	sim.Register("C11", "without-cancel", 3, func(s *sim.Sim) { runC11(s, 1) })
	sim.Register("C11", "multi", 2, func(s *sim.Sim) { runC11(s, 2) })
	sim.Register("C11", "legacy-do", 2, func(s *sim.Sim) { runC11(s, 3) })
}

type c11call struct {
	set      int
	inst     *ring.InstanceDesc
	id       string
	zone     string
	ctx      context.Context
	cancel   context.CancelCauseFunc
	started  int
	done     bool
	err      error
	result   string
	startedAt time.Duration
	late      bool // completed after its set had already met its success criterion
}

type c11set struct {
	rs        ring.ReplicationSet
	zoneAware bool
	zones     []string
	calls     map[string]*c11call // by instance id
	order     []string
}

func (cs *c11set) tolerance() int {
	if cs.zoneAware {
		return cs.rs.MaxUnavailableZones
	}
	return cs.rs.MaxErrors
}

// model predicates over *completed* calls
func (cs *c11set) succeededZones() []string {
	var out []string
	for _, z := range cs.zones {
		ok := true
		for _, id := range cs.order {
			c := cs.calls[id]
			if c.zone != z {
				continue
			}
			if !c.done || c.err != nil {
				ok = false
			}
		}
		if ok {
			out = append(out, z)
		}
	}
	return out
}

func (cs *c11set) failedZones() int {
	n := 0
	for _, z := range cs.zones {
		for _, id := range cs.order {
			c := cs.calls[id]
			if c.zone == z && c.done && c.err != nil && !c.late {
				n++
				break
			}
		}
	}
	return n
}

func (cs *c11set) successes() int {
	n := 0
	for _, c := range cs.calls {
		if c.done && c.err == nil {
			n++
		}
	}
	return n
}

func (cs *c11set) failures() int {
	n := 0
	for _, c := range cs.calls {
		if c.done && c.err != nil && !c.late {
			n++
		}
	}
	return n
}

func (cs *c11set) criterion() bool {
	if cs.zoneAware {
		return len(cs.succeededZones()) >= len(cs.zones)-cs.rs.MaxUnavailableZones
	}
	return cs.successes() >= len(cs.rs.Instances)-cs.rs.MaxErrors
}

func (cs *c11set) exceeded() bool {
	if cs.zoneAware {
		return cs.failedZones() > cs.rs.MaxUnavailableZones
	}
	return cs.failures() > cs.rs.MaxErrors
}

type termErr struct{ id string }

func (e *termErr) Error() string { return e.id }

func runC11(s *sim.Sim, variant int) {
	nSets := 1
	if variant == 2 {
		nSets = s.Range(2, 3, "sets")
	}
	minimize := s.Chance(0.5, "minimize")
	var hedge time.Duration
	if (minimize && s.Chance(0.5, "hedging")) || (!minimize && s.Chance(0.2, "hedging-delay-without-minimisation")) {
		hedge = time.Duration(s.Range(1, 5, "hedge-s")) * time.Second
	}
	var legacyDelay time.Duration
	if variant == 3 && s.Chance(0.6, "legacy-delay") {
		legacyDelay = time.Duration(s.Range(1, 5, "delay-s")) * time.Second
	}
	useTerminal := variant != 3 && s.Chance(0.3, "terminal-predicate")
	useSorter := s.Chance(0.6, "zone-sorter")

	sets := make([]*c11set, nSets)
	var zoneOrder []string
	for si := range sets {
		n := s.Range(1, 6, "instances")
		nz := s.Range(1, 4, "zones")
		if nz > n {
			nz = n
		}
		cs := &c11set{calls: map[string]*c11call{}}
		cs.zoneAware = s.Chance(0.5, "zone-aware")
		insts := make([]ring.InstanceDesc, n)
		zset := map[string]bool{}
		// instances are told apart by identity, not by address: some sets hold pairs of instances behind one address
		sharedAddr := s.Chance(0.15, "shared-addresses")
		if sharedAddr && n >= 2 {
			s.Probe("instances-sharing-an-address")
		}
		for i := range insts {
			z := i % nz
			if i >= nz {
				z = s.Choose(nz, "zone-of")
			}
			insts[i] = ring.InstanceDesc{Addr: fmt.Sprintf("s%di%d", si, i), Id: fmt.Sprintf("s%di%d", si, i), Zone: fmt.Sprintf("z%d", z)}
			if sharedAddr {
				insts[i].Addr = fmt.Sprintf("s%da%d", si, i/2)
			}
			zset[insts[i].Zone] = true
		}
		for z := range zset {
			cs.zones = append(cs.zones, z)
		}
		sort.Strings(cs.zones)
		cs.rs = ring.ReplicationSet{Instances: insts}
		if cs.zoneAware {
			cs.rs.MaxUnavailableZones = s.Choose(len(cs.zones), "max-unavailable-zones")
			if variant == 3 {
				// the legacy Do only looks at MaxUnavailableZones > 0
				if cs.rs.MaxUnavailableZones == 0 {
					cs.zoneAware = false
				}
			} else {
				cs.rs.ZoneAwarenessEnabled = true
			}
		}
		if !cs.zoneAware {
			cs.rs.MaxErrors = s.Choose(n, "max-errors")
		}
		for i := range cs.rs.Instances {
			d := &cs.rs.Instances[i]
			cs.calls[d.Id] = &c11call{set: si, inst: d, id: d.Id, zone: d.Zone}
			cs.order = append(cs.order, d.Id)
		}
		sets[si] = cs
	}
	// harness zone order (deterministic, independent of Go's map order)
	{
		all := []string{"z0", "z1", "z2", "z3"}
		for _, i := range s.Perm(4, "zone-order") {
			zoneOrder = append(zoneOrder, all[i])
		}
	}
	rank := map[string]int{}
	for i, z := range zoneOrder {
		rank[z] = i
	}
	sorter := func(zones []string) []string {
		sort.Slice(zones, func(i, j int) bool { return rank[zones[i]] < rank[zones[j]] })
		return zones
	}

	cfg := ring.DoUntilQuorumConfig{MinimizeRequests: minimize, HedgingDelay: hedge}
	if useSorter {
		cfg.ZoneSorter = sorter
	}
	if useTerminal {
		cfg.IsTerminalError = func(err error) bool {
			var te *termErr
			return errors.As(err, &te)
		}
	}

	cause := &simErr{id: "caller-cancelled"}
	ctx, cancel := context.WithCancelCause(context.Background())
	s.OnEnd(func() { cancel(nil) })
	cancelled := false

	cleaned := map[string]int{}
	outcomes := map[string]error{}
	lateAnswer := false

	callF := func(si int) func(context.Context, *ring.InstanceDesc, context.CancelCauseFunc) (string, error) {
		return func(cctx context.Context, d *ring.InstanceDesc, ccancel context.CancelCauseFunc) (string, error) {
			var c *c11call
			s.Locked(func() {
				c = sets[si].calls[d.Id]
				if c == nil || c.inst != d {
					s.Fail("unknown-instance", "", "f called with an instance that is not in the replication set: %v", d)
					return
				}
				c.started++
				c.ctx, c.cancel = cctx, ccancel
				c.startedAt = s.Elapsed()
			})
			if c == nil {
				return "", errors.New("unknown")
			}
			s.Event("call %s", d.Id)
			s.Park("call-" + d.Id)
			err := outcomes[d.Id]
			c.err = err
			if err == nil {
				c.result = "r-" + d.Id
			}
			c.done = true
			s.Event("done %s err=%v", d.Id, err)
			if variant == 2 && ccancel != nil {
				// the multi variant requires f to call the cancel function once done
				if err != nil {
					ccancel(err)
				}
			}
			return c.result, err
		}
	}
	// releasing a result may take time (e.g. closing a stream): optionally a scheduling point
	slowCleanup := variant == 2 && s.Chance(0.4, "slow-cleanup")
	cleanup := func(r string) {
		n := 0
		s.Locked(func() { cleaned[r]++; n = cleaned[r] })
		s.Event("cleanup %s", r)
		if slowCleanup {
			s.Park(fmt.Sprintf("cleanup-%s#%d", r, n))
		}
	}

	var (
		returned, entered bool
		results           []string
		retErr            error
		t0                time.Duration
	)
	s.Go("caller", func() {
		entered = true
		t0 = s.Elapsed()
		switch variant {
		case 0:
			results, retErr = ring.DoUntilQuorum(ctx, sets[0].rs, cfg, func(c context.Context, d *ring.InstanceDesc) (string, error) {
				return callF(0)(c, d, nil)
			}, cleanup)
		case 1:
			results, retErr = ring.DoUntilQuorumWithoutSuccessfulContextCancellation(ctx, sets[0].rs, cfg, callF(0), cleanup)
		case 2:
			rss := make([]ring.ReplicationSet, len(sets))
			for i := range sets {
				rss[i] = sets[i].rs
			}
			// all sets share one f; find the set by instance id prefix
			results, retErr = ring.DoMultiUntilQuorumWithoutSuccessfulContextCancellation(ctx, rss, cfg, func(c context.Context, d *ring.InstanceDesc, cc context.CancelCauseFunc) (string, error) {
				var si int
				fmt.Sscanf(d.Id, "s%d", &si)
				return callF(si)(c, d, cc)
			}, cleanup)
		case 3:
			var res []interface{}
			res, retErr = sets[0].rs.Do(ctx, legacyDelay, func(c context.Context, d *ring.InstanceDesc) (interface{}, error) {
				r, err := callF(0)(c, d, nil)
				if err != nil {
					return nil, err
				}
				return r, nil
			})
			for _, r := range res {
				results = append(results, r.(string))
			}
		}
		returned = true
		s.Event("return n=%d err=%v", len(results), retErr)
	})

	allCalls := func() []*c11call {
		var out []*c11call
		for _, cs := range sets {
			for _, id := range cs.order {
				out = append(out, cs.calls[id])
			}
		}
		return out
	}
	terminalSeen := func() error {
		for _, c := range allCalls() {
			if c.done && c.err != nil && useTerminal && !c.late {
				var te *termErr
				if errors.As(c.err, &te) {
					return c.err
				}
			}
		}
		return nil
	}
	failureCredits := 0 // failures (non-zone) / first failures of a zone that were completed
	checkedReturn := false
	hedgeReleased, failureReleased := false, false

	check := func() {
		if !entered {
			return
		}
		for _, c := range allCalls() {
			if c.started > 1 {
				s.Fail("called-twice", "", "instance %s was called %d times", c.id, c.started)
			}
		}
		// --- request minimisation (single-set variants of DoUntilQuorum only)
		if minimize && (variant == 0 || variant == 1) && !cancelled {
			cs := sets[0]
			ticks := 0
			if hedge > 0 {
				ticks = int((s.Elapsed() - t0) / hedge)
			}
			if cs.zoneAware {
				startedZones := map[string]bool{}
				for _, c := range cs.calls {
					if c.started > 0 {
						startedZones[c.zone] = true
					}
				}
				minZ := len(cs.zones) - cs.rs.MaxUnavailableZones
				if len(startedZones) > minZ+cs.failedZones()+ticks {
					s.Fail("minimisation-exceeded", "", "zone-aware: requests started in %d zones, minimum %d + %d failed zones + %d hedging ticks", len(startedZones), minZ, cs.failedZones(), ticks)
				}
				if want := minZ + cs.failedZones() + ticks; !returned && terminalSeen() == nil && len(startedZones) < want && len(startedZones) < len(cs.zones) {
					s.Fail("held-back-request-not-released", "", "zone-aware: requests started in %d of %d zones %v after the call began; expected %d (minimum %d + %d failed zones + %d hedging ticks of %v)", len(startedZones), len(cs.zones), s.Elapsed()-t0, want, minZ, cs.failedZones(), ticks, hedge)
				}
				if len(startedZones) > minZ {
					if ticks > 0 {
						hedgeReleased = true
					}
					if cs.failedZones() > 0 {
						failureReleased = true
					}
				}
				if useSorter && len(startedZones) <= len(cs.zones) {
					// zones must be used in sorter order: started zones form a prefix of the sorted zone list
					zs := append([]string(nil), cs.zones...)
					zs = sorter(zs)
					seenGap := false
					for _, z := range zs {
						if !startedZones[z] {
							seenGap = true
						} else if seenGap {
							s.Fail("zone-order", "", "zone %s was started before an earlier zone in the sorter's order %v (started: %v)", z, zs, startedZones)
						}
					}
				}
			} else {
				started := 0
				for _, c := range cs.calls {
					if c.started > 0 {
						started++
					}
				}
				minI := len(cs.rs.Instances) - cs.rs.MaxErrors
				if started > minI+cs.failures()+ticks {
					s.Fail("minimisation-exceeded", "", "requests started for %d instances, minimum %d + %d failures + %d hedging ticks", started, minI, cs.failures(), ticks)
				}
				if want := minI + cs.failures() + ticks; !returned && terminalSeen() == nil && started < want && started < len(cs.rs.Instances) {
					s.Fail("held-back-request-not-released", "", "requests started for %d of %d instances %v after the call began; expected %d (minimum %d + %d failures + %d hedging ticks of %v)", started, len(cs.rs.Instances), s.Elapsed()-t0, want, minI, cs.failures(), ticks, hedge)
				}
				if started > minI {
					if ticks > 0 {
						hedgeReleased = true
					}
					if cs.failures() > 0 {
						failureReleased = true
					}
				}
			}
		}
		// --- without minimisation every instance is called straight away (the hedging delay is ignored)
		if !minimize && (variant == 0 || variant == 1) && !cancelled && !returned && terminalSeen() == nil {
			for _, c := range sets[0].calls {
				if c.started == 0 {
					s.Fail("not-all-called-without-minimisation", "", "request minimisation is off (hedging delay %v) but %s has not been called: %s", hedge, c.id, describeSets(sets))
				}
			}
		}
		// --- legacy Do: delayed extra requests start only after the delay or a failure
		if variant == 3 && legacyDelay > 0 && !sets[0].zoneAware && s.Elapsed()-t0 < legacyDelay {
			cs := sets[0]
			started := 0
			for _, c := range cs.calls {
				if c.started > 0 {
					started++
				}
			}
			if min := len(cs.rs.Instances) - cs.rs.MaxErrors; started > min+cs.failures() {
				s.Fail("legacy-extra-request-early", "", "%d requests started %v after the call began (delay %v): minimum %d + %d failures", started, s.Elapsed()-t0, legacyDelay, min, cs.failures())
			}
			if started > len(cs.rs.Instances)-cs.rs.MaxErrors {
				failureReleased = true
			}
		}
		// --- promptness of errors (a call that sits in the caller's slow clean-up function cannot return yet)
		if !returned && len(s.ParkedWithPrefix("cleanup-")) == 0 {
			if cancelled {
				s.Fail("no-return-after-cancel", "", "caller context ended but the call has not returned")
			}
			if te := terminalSeen(); te != nil {
				s.Fail("no-return-after-terminal-error", "", "terminal error %v was returned by a replica but the call has not returned", te)
			}
			for si, cs := range sets {
				if cs.exceeded() {
					s.Fail("no-return-after-too-many-failures", "", "set %d: tolerated failures exceeded but the call has not returned: %s", si, describeSets(sets))
				}
			}
		}
		if returned && !checkedReturn {
			checkedReturn = true
			byID := map[string]*c11call{}
			for _, c := range allCalls() {
				byID["r-"+c.id] = c
			}
			seen := map[string]bool{}
			for _, r := range results {
				c := byID[r]
				if c == nil || !c.done || c.err != nil {
					s.Fail("result-not-from-successful-call", "", "returned result %q does not come from a call that succeeded", r)
				}
				if seen[r] {
					s.Fail("result-duplicated", "", "result %q returned twice", r)
				}
				seen[r] = true
			}
			if retErr == nil {
				for si, cs := range sets {
					if !cs.criterion() {
						s.Fail("return-before-quorum", "", "returned success but set %d does not meet its criterion: %s", si, describeSets(sets))
					}
					if variant == 3 {
						continue // legacy Do documents "all results from f"
					}
					// results taken from this set
					if cs.zoneAware {
						zonesIn := map[string]int{}
						for _, id := range cs.order {
							if seen["r-"+id] {
								zonesIn[cs.calls[id].zone]++
							}
						}
						okZones := map[string]bool{}
						for _, z := range cs.succeededZones() {
							okZones[z] = true
						}
						for z, n := range zonesIn {
							size := 0
							for _, id := range cs.order {
								if cs.calls[id].zone == z {
									size++
								}
							}
							if !okZones[z] {
								s.Fail("result-from-incomplete-zone", "", "set %d: results returned from zone %s which is not fully successful: %s", si, z, describeSets(sets))
							}
							if n != size {
								s.Fail("zone-results-partial", "", "set %d: %d of %d results of zone %s returned", si, n, size, z)
							}
						}
						if len(zonesIn) < len(cs.zones)-cs.rs.MaxUnavailableZones {
							s.Fail("too-few-zones", "", "set %d: results from %d zones, need %d", si, len(zonesIn), len(cs.zones)-cs.rs.MaxUnavailableZones)
						}
					} else {
						n := 0
						for _, id := range cs.order {
							if seen["r-"+id] {
								n++
							}
						}
						if n < len(cs.rs.Instances)-cs.rs.MaxErrors {
							s.Fail("too-few-results", "", "set %d: %d results returned, need %d", si, n, len(cs.rs.Instances)-cs.rs.MaxErrors)
						}
					}
				}
			} else {
				if len(results) != 0 {
					s.Fail("results-with-error", "", "error %v returned together with %d results", retErr, len(results))
				}
				ok := false
				if cancelled && (retErr == error(cause) || errors.Is(retErr, context.Canceled)) {
					ok = true
				}
				for _, c := range allCalls() {
					// any terminal error a replica returned justifies the failure (several may arrive before the call returns)
					var te *termErr
					if c.done && c.err != nil && useTerminal && !c.late && errors.As(c.err, &te) && retErr == c.err {
						ok = true
					}
				}
				for _, cs := range sets {
					if cs.exceeded() {
						for _, c := range cs.calls {
							if c.done && c.err != nil && c.err == retErr {
								ok = true
							}
						}
					}
				}
				if !ok {
					s.Fail("unjustified-error", "", "returned error %v; cancelled=%v terminal=%v sets=%s", retErr, cancelled, terminalSeen(), describeSets(sets))
				}
			}
			// contexts at return time
			if variant != 3 {
				for _, c := range allCalls() {
					if c.started == 0 || c.ctx == nil {
						continue
					}
					used := retErr == nil && seen["r-"+c.id]
					if !used && c.ctx.Err() == nil {
						s.Fail("context-not-cancelled", "", "call to %s is not used by the returned result but its context is still live after return", c.id)
					}
					if used && variant == 1 && !cancelled && c.ctx.Err() != nil {
						s.Fail("used-context-cancelled", "", "call to %s is part of the returned result but its context was cancelled (%v)", c.id, context.Cause(c.ctx))
					}
					if used && variant == 0 && c.ctx.Err() == nil {
						s.Fail("context-not-cancelled", "", "DoUntilQuorum returned but the context of %s is still live", c.id)
					}
				}
			}
		}
	}

	nextErr := 0
	for s.Budget() {
		s.Wait()
		check()
		names := s.Parked()
		var acts []sim.Action
		if !cancelled && entered && !returned {
			acts = append(acts, sim.Action{Name: "cancel-ctx", Weight: 1})
		}
		if entered && !returned && (hedge > 0 || legacyDelay > 0) {
			acts = append(acts, sim.Action{Name: "advance", Weight: 3})
		}
		if len(names) == 0 && (len(acts) == 0 || returned) {
			break
		}
		if len(names) == 0 {
			// nothing can complete any more: only time or cancellation can make progress
			stuck := true
			for _, a := range acts {
				if a.Name == "advance" {
					stuck = false
				}
			}
			if stuck {
				break
			}
		}
		total := len(names)*4 + func() int {
			t := 0
			for _, a := range acts {
				t += a.Weight
			}
			return t
		}()
		v := s.Choose(total, "step")
		if v >= len(names)*4 {
			v -= len(names) * 4
			var a sim.Action
			for _, x := range acts {
				if v < x.Weight {
					a = x
					break
				}
				v -= x.Weight
			}
			switch a.Name {
			case "cancel-ctx":
				s.Do("cancel-ctx", func() {
					cancelled = true
					s.Fault("ctx-cancel")
					cancel(cause)
				})
			case "advance":
				d := hedge
				if d == 0 {
					d = legacyDelay
				}
				step := sim.Pick(s, "advance", d, d/2, d-time.Millisecond, 2*d+time.Second)
				s.Advance(step)
				s.Probe("clock-advanced")
			}
			continue
		}
		name := names[v/4]
		if strings.HasPrefix(name, "call-") {
			id := strings.TrimPrefix(name, "call-")
			var c *c11call
			for _, x := range allCalls() {
				if x.id == id {
					c = x
				}
			}
			if c != nil && sets[c.set].criterion() {
				c.late = true
			}
			k := s.Choose(8, "outcome")
			switch {
			case k <= 4:
				outcomes[id] = nil
			case k == 7 && useTerminal:
				nextErr++
				outcomes[id] = &termErr{id: fmt.Sprintf("terminal-error-%d-from-%s", nextErr, id)}
				s.Fault("replica-terminal-error")
			default:
				nextErr++
				outcomes[id] = &simErr{id: fmt.Sprintf("error-%d-from-%s", nextErr, id), canceled: s.Chance(0.3, "error-is-a-cancellation")}
				s.Fault("replica-error")
				if c != nil {
					cs := sets[c.set]
					first := true
					for _, o := range cs.calls {
						if o.zone == c.zone && o.done && o.err != nil {
							first = false
						}
					}
					if !cs.zoneAware || first {
						failureCredits++
					}
				}
			}
			if returned {
				s.Probe("call-completed-after-return")
				lateAnswer = true
			}
			if c != nil && c.ctx != nil && c.ctx.Err() != nil {
				s.Probe("answer-after-context-cancelled")
			}
		}
		s.Release(name)
	}
	s.Wait()
	check()
	if len(s.Parked()) == 0 {
		if !returned {
			s.Fail("never-returns", "", "every started call has completed and nothing is pending but the call has not returned: %s", describeSets(sets))
		}
		// cleanup obligations once everything has completed
		seen := map[string]bool{}
		for _, r := range results {
			seen[r] = true
		}
		if variant != 3 {
			for _, c := range allCalls() {
				r := "r-" + c.id
				used := retErr == nil && seen[r]
				switch {
				case c.done && c.err == nil && !used && cleaned[r] != 1:
					s.Fail("cleanup-missing-or-repeated", "", "successful result %s was not returned and was cleaned up %d times (want 1)", r, cleaned[r])
				case used && cleaned[r] != 0:
					s.Fail("cleanup-of-returned-result", "", "result %s was returned and also cleaned up", r)
				case (!c.done || c.err != nil) && cleaned[r] != 0:
					s.Fail("cleanup-of-failed-call", "", "cleanup called for %s which did not succeed", r)
				}
				if c.started > 0 && c.ctx != nil && !used && c.ctx.Err() == nil {
					s.Fail("context-not-cancelled", "", "after completion: context of unused call %s is still live", c.id)
				}
			}
		}
	}
	_ = failureCredits
	if lateAnswer || hedgeReleased || failureReleased {
		s.Nontrivial = true
	}
	if hedgeReleased {
		s.Probe("hedging-released-request")
	}
	if failureReleased {
		s.Probe("failure-released-request")
	}
	s.Note("variant=%d minimize=%v hedge=%v terminal=%v sorter=%v cancelled=%v returned=%v results=%v err=%v sets=%s", variant, minimize, hedge, useTerminal, useSorter, cancelled, returned, results, retErr, describeSets(sets))
	s.State(variant, minimize, hedge > 0, describeSets(sets), retErr == nil, len(results))
}

func describeSets(sets []*c11set) string {
	var b strings.Builder
	for si, cs := range sets {
		fmt.Fprintf(&b, "{set%d zoneAware=%v tol=%d:", si, cs.zoneAware, cs.tolerance())
		for _, id := range cs.order {
			c := cs.calls[id]
			st := "-"
			if c.started > 0 {
				st = "started"
			}
			if c.done {
				st = "ok"
				if c.err != nil {
					st = "err"
				}
			}
			fmt.Fprintf(&b, " %s/%s=%s", id, c.zone, st)
		}
		b.WriteString("}")
	}
	return b.String()
}
