// Package simkv is the key-value seam shared by the RING and PART worlds: a kv.Client wrapper, one
// per actor, over one shared real backend (consul in-memory client or gossip store). It
//   - makes every CAS a sequence of scheduling points (before the store read, and between the read
//     and the conditional write, i.e. right after the caller's function ran),
//   - records every committed write as (writer, in, out, virtual time),
//   - injects faults: failing Get/CAS windows, CAS commit-then-error (lost ack), forced retries,
//     process crash before / after the commit of the actor's k-th write,
//   - implements WatchKey as a harness-owned publish/subscribe so that the scheduler decides when
//     (and how coalesced) a watcher sees an update.
package simkv

import (
	"context"
	"errors"
	"fmt"
	"sort"
	"strings"
	"sync"
	"time"

	"github.com/grafana/dskit/kv"
	"github.com/grafana/dskit/zzverif/sim"
)

// Commit is one committed write.
type Commit struct {
	Seq     int
	Writer  string
	Key     string
	In, Out interface{} // deep copies
	At      time.Duration
	Attempt int
	FStep   int // scheduler step during which the caller's function produced the committed value
}

type watcher struct {
	actor     string
	key       string
	ch        chan struct{}
	seen      int // store version delivered last
	cancelled bool
}

// Store is the shared backend plus the recorded history.
type Store struct {
	S       *sim.Sim
	Inner   kv.Client
	Clone   func(interface{}) interface{}
	Commits []*Commit
	// OnCommit is called (in the committing task) right after a write was accepted.
	OnCommit func(c *Commit)
	// OnWatch is called (in the watcher's goroutine) with the value about to be handed to a WatchKey callback.
	OnWatch func(actor, key string, v interface{})

	mu       sync.Mutex
	version  map[string]int
	watchers []*watcher
	// ParkReads makes plain Get calls scheduling points too.
	ParkReads bool
}

func NewStore(s *sim.Sim, inner kv.Client, clone func(interface{}) interface{}) *Store {
	return &Store{S: s, Inner: inner, Clone: clone, version: map[string]int{}}
}

// Version returns the number of committed writes to key.
func (st *Store) Version(key string) int {
	st.mu.Lock()
	defer st.mu.Unlock()
	return st.version[key]
}

// Client is the kv.Client handed to one actor.
type Client struct {
	st    *Store
	Actor string

	// fault switches, set by the world (root) between steps
	FailCAS      bool  // every CAS fails before reading
	FailGet      bool  // every Get fails
	AckLostNext  bool  // the next committed CAS reports an error to its caller
	ForceRetry   int   // the next n invocations of f are followed by a forced retry
	CrashAtWrite int   // crash at the actor's k-th commit (1-based); 0 = never
	CrashAfter   bool  // crash after (true) or before (false) that commit
	Dead         bool  // the actor's process has crashed: every call blocks forever
	FailFrom     int   // with FailN > 0: the FailN CAS calls starting with the FailFrom-th (1-based) are rejected
	FailN        int

	Failed   int // CAS calls that returned an error to the actor
	Writes   int // commits so far
	Attempts int // invocations of f so far
	casSeq   int
}

func (st *Store) NewClient(actor string) *Client { return &Client{st: st, Actor: actor} }

var (
	ErrInjected   = errors.New("injected KV error")
	errForceRetry = errors.New("injected: retry requested")
)

func (c *Client) die() {
	c.Dead = true
	c.st.S.Event("%s process crashed", c.Actor)
	select {}
}

func (c *Client) List(ctx context.Context, prefix string) ([]string, error) {
	if c.Dead {
		select {}
	}
	return c.st.Inner.List(ctx, prefix)
}

func (c *Client) Get(ctx context.Context, key string) (interface{}, error) {
	if c.Dead {
		select {}
	}
	if c.st.ParkReads {
		c.st.S.Park(c.Actor + ":get")
	}
	if c.FailGet {
		c.st.S.Fault("kv-get-error")
		return nil, ErrInjected
	}
	return c.st.Inner.Get(ctx, key)
}

func (c *Client) Delete(ctx context.Context, key string) error {
	if c.Dead {
		select {}
	}
	err := c.st.Inner.Delete(ctx, key)
	if err == nil {
		c.st.bump(key)
	}
	return err
}

func (st *Store) bump(key string) {
	st.mu.Lock()
	st.version[key]++
	st.mu.Unlock()
}

// Put overwrites the key with v (a harness write that is not attributed to any actor).
func (st *Store) Put(key string, v interface{}) error {
	err := st.Inner.CAS(context.Background(), key, func(interface{}) (interface{}, bool, error) { return v, false, nil })
	if err == nil {
		st.bump(key)
	}
	return err
}

// Wipe deletes the key from the backend (the store "lost the ring"); watchers are not notified of
// a deletion by the real backends either.
func (st *Store) Wipe(key string) error {
	return st.Inner.Delete(context.Background(), key)
}

func (c *Client) CAS(ctx context.Context, key string, f func(in interface{}) (out interface{}, retry bool, err error)) (err error) {
	defer func() {
		if err != nil {
			c.Failed++
		}
	}()
	s := c.st.S
	if c.Dead {
		select {}
	}
	c.casSeq++
	s.Park(c.Actor + ":cas")
	if c.Dead {
		select {}
	}
	if c.FailCAS {
		s.Fault("kv-cas-error")
		return ErrInjected
	}
	if c.FailN > 0 && c.casSeq >= c.FailFrom {
		c.FailN--
		s.Fault("kv-cas-rejected")
		return ErrInjected
	}
	var lastIn, lastOut interface{}
	attempt := 0
	fStep := 0
	err = c.st.Inner.CAS(ctx, key, func(in interface{}) (interface{}, bool, error) {
		attempt++
		c.Attempts++
		fStep = s.Steps
		inCopy := c.st.Clone(in)
		out, retry, ferr := f(in)
		lastIn, lastOut = inCopy, nil
		if ferr == nil && out != nil {
			lastOut = c.st.Clone(out)
		}
		if attempt > 1 {
			s.Probe("cas-retried")
		}
		// between the backend's read and its conditional write
		s.Park(c.Actor + ":f")
		if c.Dead {
			select {}
		}
		if c.FailCAS {
			// the store became unavailable while the caller was computing
			s.Fault("kv-cas-error")
			return nil, false, ErrInjected
		}
		if c.ForceRetry > 0 && ferr == nil && out != nil {
			c.ForceRetry--
			s.Fault("forced-cas-retry")
			return nil, true, errForceRetry
		}
		if out != nil && ferr == nil && c.CrashAtWrite > 0 && c.Writes+1 == c.CrashAtWrite && !c.CrashAfter {
			s.Fault("crash-before-commit")
			c.die()
		}
		return out, retry, ferr
	})
	if err != nil {
		if errors.Is(err, errForceRetry) || strings.Contains(err.Error(), errForceRetry.Error()) {
			// the backend gave up retrying; report a plain failure
			return ErrInjected
		}
		return err
	}
	if lastOut == nil {
		return nil // f declined
	}
	c.Writes++
	cm := &Commit{Writer: c.Actor, Key: key, In: lastIn, Out: lastOut, At: s.Elapsed(), Attempt: attempt, FStep: fStep}
	c.st.mu.Lock()
	cm.Seq = len(c.st.Commits)
	c.st.Commits = append(c.st.Commits, cm)
	c.st.version[key]++
	c.st.mu.Unlock()
	s.Event("commit #%d by %s (attempt %d)", cm.Seq, c.Actor, attempt)
	if c.st.OnCommit != nil {
		c.st.OnCommit(cm)
	}
	if c.CrashAtWrite > 0 && c.Writes == c.CrashAtWrite && c.CrashAfter {
		s.Fault("crash-after-commit")
		c.die()
	}
	if c.AckLostNext {
		c.AckLostNext = false
		s.Fault("kv-ack-lost")
		return ErrInjected
	}
	return nil
}

// WatchKey: harness-owned publish/subscribe. The callback runs in the caller's goroutine whenever
// the scheduler performs the "deliver" action for this watcher, with the latest value.
func (c *Client) WatchKey(ctx context.Context, key string, f func(interface{}) bool) {
	w := &watcher{actor: c.Actor, key: key, ch: make(chan struct{}, 1)}
	c.st.mu.Lock()
	w.seen = 0
	c.st.watchers = append(c.st.watchers, w)
	c.st.mu.Unlock()
	defer func() {
		c.st.mu.Lock()
		w.cancelled = true
		c.st.mu.Unlock()
	}()
	c.st.S.NameGoroutine(c.Actor + ":watch")
	for {
		select {
		case <-ctx.Done():
			return
		case <-w.ch:
			if c.Dead {
				select {}
			}
			v, err := c.st.Inner.Get(ctx, key)
			if err != nil || v == nil {
				continue
			}
			if c.st.OnWatch != nil {
				c.st.OnWatch(c.Actor, key, v)
			}
			if !f(v) {
				return
			}
		}
	}
}

func (c *Client) WatchPrefix(ctx context.Context, prefix string, f func(string, interface{}) bool) {
	<-ctx.Done()
}

// PendingWatchers returns the names of watchers that have not yet seen the latest version.
func (st *Store) PendingWatchers() []string {
	st.mu.Lock()
	defer st.mu.Unlock()
	var out []string
	for i, w := range st.watchers {
		if !w.cancelled && w.seen < st.version[w.key] {
			out = append(out, fmt.Sprintf("watch:%s#%d", w.actor, i))
		}
	}
	sort.Strings(out)
	return out
}

// Deliver wakes the named watcher (as returned by PendingWatchers) with the latest version.
func (st *Store) Deliver(name string) {
	st.mu.Lock()
	var target *watcher
	for i, w := range st.watchers {
		if fmt.Sprintf("watch:%s#%d", w.actor, i) == name {
			target = w
		}
	}
	if target != nil {
		target.seen = st.version[target.key]
	}
	st.mu.Unlock()
	if target == nil {
		return
	}
	select {
	case target.ch <- struct{}{}:
	default:
	}
}

// DeliverAll brings every watcher up to date (used before observation points).
func (st *Store) DeliverAll() {
	for _, n := range st.PendingWatchers() {
		n := n
		st.S.Do(n, func() { st.Deliver(n) })
	}
}
