package wcas

// C07 – compare-and-swap atomicity on every KV backend.
//
// Real code: kv/consul Client + in-memory mockKV, kv/etcd Client + in-process mock, kv/memberlist
// KV + Client on one node (no transport), kv.PrefixClient, the metrics wrapper, kv.MultiClient with
// mirroring. Stub: the callers and their functions (each invocation of f is a scheduling point
// between the backend's read and its conditional write); for consul additionally every low-level
// Get / CAS call is a scheduling point and may fail *before* committing.

import (
	"context"
	"errors"
	"fmt"
	"sort"
	"strings"
	"time"

	"github.com/anishathalye/porcupine"
	"github.com/go-kit/log"
	consulapi "github.com/hashicorp/consul/api"

	"github.com/grafana/dskit/flagext"
	"github.com/grafana/dskit/kv"
	"github.com/grafana/dskit/kv/codec"
	"github.com/grafana/dskit/kv/consul"
	"github.com/grafana/dskit/kv/etcd"
	"github.com/grafana/dskit/kv/memberlist"
	"github.com/grafana/dskit/ring"
	"github.com/grafana/dskit/services"
	"github.com/grafana/dskit/zzverif/sim"
)

func init() {
	for _, b := range []string{"consul", "etcd", "memberlist"} {
		b := b
		sim.Register("C07", b, 3, func(s *sim.Sim) { runCAS(s, b, false) })
		sim.Register("C07", b+"-starve", 1, func(s *sim.Sim) { runCAS(s, b, true) })
	}
}

const baseTS = int64(946684800)

// canon renders a ring descriptor used as a register value: visible op ids + the marker.
func canon(v interface{}) string {
	if v == nil {
		return "<nil>"
	}
	d, ok := v.(*ring.Desc)
	if !ok || d == nil {
		return fmt.Sprintf("<%T>", v)
	}
	var ids []string
	marker := ""
	for id, ing := range d.Ingesters {
		if ing.State == ring.LEFT {
			continue
		}
		if id == "marker" {
			marker = fmt.Sprintf("%s@%d", ing.Addr, ing.Timestamp-baseTS)
			continue
		}
		ids = append(ids, id)
	}
	sort.Strings(ids)
	if marker == "" && len(ids) == 0 {
		return "<nil>" // an empty descriptor is the same register value as no value
	}
	return marker + "{" + strings.Join(ids, ",") + "}"
}

type faultyConsul struct {
	consul.SimKV
	s        *sim.Sim
	failNext map[string]bool // actor -> fail the next low-level call before it commits
	park     bool
}

func (f *faultyConsul) Get(key string, q *consulapi.QueryOptions) (*consulapi.KVPair, *consulapi.QueryMeta, error) {
	a := f.s.ActorName()
	if f.park && a != "" {
		f.s.Park(a + "-lowget")
	}
	if a != "" && f.failNext[a] {
		f.failNext[a] = false
		f.s.Fault("consul-get-error")
		return nil, nil, errors.New("injected get error")
	}
	return f.SimKV.Get(key, q)
}

func (f *faultyConsul) CAS(p *consulapi.KVPair, q *consulapi.WriteOptions) (bool, *consulapi.WriteMeta, error) {
	a := f.s.ActorName()
	if f.park && a != "" {
		f.s.Park(a + "-lowcas")
	}
	if a != "" && f.failNext[a] {
		f.failNext[a] = false
		f.s.Fault("consul-cas-error-before-commit")
		return false, nil, errors.New("injected cas error")
	}
	return f.SimKV.CAS(p, q)
}

// parkingCodec makes the end of Decode a scheduling point: the client has turned the bytes it read into a value
// and has not yet looked at anything else the store handed out with them (consul / etcd clients decode outside
// any lock; never used with the gossip store, which decodes under its own locks).
type parkingCodec struct {
	codec.Codec
	s *sim.Sim
}

func (c parkingCodec) Decode(b []byte) (interface{}, error) {
	v, err := c.Codec.Decode(b)
	if a := c.s.ActorName(); a != "" {
		c.s.Park(a + "-decoded")
	}
	return v, err
}

type invocation struct {
	in, out string // canonical; out=="" when f declined or failed
}

type casCall struct {
	caller   string
	op       int
	kind     string // append | remove | decline | fail | retry-then-append
	invs     []invocation
	invoke   int // event sequence numbers
	ret      int
	returned bool
	err      error
}

func runCAS(s *sim.Sim, backend string, starve bool) {
	logger := log.NewNopLogger()
	var cdc codec.Codec = ring.GetCodec()
	var client kv.Client
	fc := &faultyConsul{s: s, failNext: map[string]bool{}}
	faults := !starve && s.Chance(0.4, "low-level-faults")
	switch backend {
	case "consul":
		fc.park = s.Chance(0.5, "park-low-level")
		if s.Chance(0.3, "park-after-decode") {
			cdc = parkingCodec{cdc, s}
		}
		c, closer := consul.NewSimInMemoryClient(cdc, consul.Config{}, logger, func(in consul.SimKV) consul.SimKV {
			fc.SimKV = in
			return fc
		})
		s.OnEnd(func() { _ = closer.Close() })
		client = c
	case "etcd":
		if s.Chance(0.3, "park-after-decode") {
			cdc = parkingCodec{cdc, s}
		}
		c, closer := etcd.NewInMemoryClient(cdc, logger)
		s.OnEnd(func() { _ = closer.Close() })
		client = c
	case "memberlist":
		var cfg memberlist.KVConfig
		flagext.DefaultValues(&cfg)
		cfg.Codecs = []codec.Codec{cdc}
		cfg.LeftIngestersTimeout = time.Hour
		mkv := memberlist.NewSimKV(cfg, logger, nil, func() int { return 1 })
		if err := mkv.StartAsync(context.Background()); err != nil {
			panic(err)
		}
		s.Wait()
		if mkv.State() != services.Running {
			panic("memberlist KV did not start: " + mkv.State().String())
		}
		s.OnEnd(func() { mkv.StopAsync() })
		c, err := memberlist.NewClient(mkv, cdc)
		if err != nil {
			panic(err)
		}
		client = c
	}
	var wrappers []string
	if s.Chance(0.4, "prefix") {
		client = kv.PrefixClient(client, "pfx/")
		wrappers = append(wrappers, "prefix")
	}
	if s.Chance(0.4, "metrics") {
		client = kv.NewSimMetricsClient(backend, client, nil)
		wrappers = append(wrappers, "metrics")
	}
	var secondary kv.Client
	if s.Chance(0.3, "multi") {
		sec, closer := consul.NewInMemoryClient(cdc, logger, nil)
		secondary = sec
		s.OnEnd(func() { _ = closer.Close() })
		mc := kv.NewSimMultiClient(kv.MultiConfig{MirrorEnabled: true, MirrorTimeout: 2 * time.Second}, backend, client, "secondary", sec, logger, nil)
		client = mc
		wrappers = append(wrappers, "multi")
	}

	nKeys := s.Range(1, 2, "keys")
	keys := []string{"ring-a", "ring-b"}[:nKeys]
	nCallers := s.Range(2, 6, "callers")
	if s.Chance(0.15, "many-callers") {
		nCallers = s.Range(7, 16, "callers-many")
	}
	if starve {
		nCallers, nKeys, keys = 2, 1, keys[:1]
	}
	ctx, cancel := context.WithCancel(context.Background())
	s.OnEnd(cancel)

	seq := 0
	next := func() int { seq++; return seq }
	calls := map[string][]*casCall{} // per key
	opID := 0
	retried := false
	finished := 0

	for ci := 0; ci < nCallers; ci++ {
		name := fmt.Sprintf("c%02d", ci)
		nOps := s.Range(1, 4, "ops")
		if s.Chance(0.1, "many-ops") {
			nOps = s.Range(5, 12, "ops-many")
		}
		if starve {
			if ci == 0 {
				nOps = 1
			} else {
				nOps = 14
			}
		}
		type plan struct {
			key, kind string
		}
		var plans []plan
		for o := 0; o < nOps; o++ {
			kind := sim.Pick(s, "fn-kind", "append", "append", "append", "remove", "decline", "fail", "retry-then-append", "append-then-decline", "decline-and-scribble", "fail-and-scribble")
			if starve {
				kind = "append"
			}
			plans = append(plans, plan{keys[s.Choose(len(keys), "key")], kind})
		}
		s.Go(name, func() {
			var kept *ring.Desc // the object this caller returned from its last writing function (callers may keep it)
			for o, p := range plans {
				call := &casCall{caller: name, op: o, kind: p.kind}
				s.Locked(func() {
					calls[p.key] = append(calls[p.key], call)
					call.invoke = next()
				})
				attempt := 0
				err := client.CAS(ctx, p.key, func(in interface{}) (interface{}, bool, error) {
					attempt++
					if attempt > 1 {
						retried = true
					}
					cin := canon(in)
					// the decision is taken before parking: f is applied to the value it was given
					var d *ring.Desc
					if in != nil {
						d = in.(*ring.Desc)
					}
					if d == nil {
						d = ring.NewDesc()
					}
					inv := invocation{in: cin}
					var out interface{}
					var retry bool
					var ferr error
					scribble := func() {
						// the caller goes on using an object it handed to the store earlier: the store must not be affected
						if kept != nil {
							kept.Ingesters["scribble-"+name] = ring.InstanceDesc{Addr: "never-written", Timestamp: baseTS + 100000, State: ring.ACTIVE}
							s.Probe("caller-reused-returned-object")
						}
					}
					switch {
					case p.kind == "decline":
					case p.kind == "append-then-decline" && attempt > 1:
						s.Probe("declined-after-lost-attempt")
					case p.kind == "decline-and-scribble":
						scribble()
					case p.kind == "fail-and-scribble":
						scribble()
						ferr = errors.New("f failed")
					case p.kind == "fail":
						ferr = errors.New("f failed")
					case p.kind == "retry-then-append" && attempt == 1:
						retry, ferr = true, errors.New("f asks for a retry")
					case p.kind == "remove":
						var victim string
						var ids []string
						for id, ing := range d.Ingesters {
							if id != "marker" && ing.State != ring.LEFT {
								ids = append(ids, id)
							}
						}
						sort.Strings(ids)
						if len(ids) > 0 {
							victim = ids[0]
						}
						if victim == "" {
							break
						}
						delete(d.Ingesters, victim)
						fallthrough
					default:
						var id int
						s.Locked(func() { opID++; id = opID })
						ts := baseTS + 1
						if m, ok := d.Ingesters["marker"]; ok {
							ts = m.Timestamp + 1
						}
						d.Ingesters["marker"] = ring.InstanceDesc{Addr: fmt.Sprintf("w%d", id), Timestamp: ts, State: ring.ACTIVE}
						if p.kind != "remove" {
							d.Ingesters[fmt.Sprintf("op%03d", id)] = ring.InstanceDesc{Addr: name, Timestamp: ts, State: ring.ACTIVE, Tokens: []uint32{uint32(id)}}
						}
						out = d
						inv.out = canon(d)
						kept = d
					}
					s.Locked(func() { call.invs = append(call.invs, inv) })
					s.Event("%s op%d f#%d in=%s out=%s", name, o, attempt, inv.in, inv.out)
					s.Park(fmt.Sprintf("%s-f", name))
					return out, retry, ferr
				})
				s.Locked(func() {
					call.err, call.returned, call.ret = err, true, next()
					finished++
				})
				s.Event("%s op%d CAS -> %v", name, o, err)
			}
		})
	}

	// ---- schedule
	if starve {
		// adversary: every time the victim (c00) sits between its read and its write, the aggressor
		// (c01) completes one whole CAS
		for guard := 0; guard < 4000 && s.Budget(); guard++ {
			s.Wait()
			names := s.Parked()
			if len(names) == 0 {
				break
			}
			victimInF := s.IsParked("c00-f")
			aggr := s.ParkedWithPrefix("c01")
			switch {
			case victimInF && len(aggr) > 0:
				// let the aggressor commit one operation
				before := finished
				for i := 0; i < 50 && finished == before && len(s.ParkedWithPrefix("c01")) > 0; i++ {
					s.Release(s.ParkedWithPrefix("c01")[0])
				}
				s.Release("c00-f")
				s.Probe("victim-lost-race")
			case s.IsParked("c00"):
				s.Release("c00")
			case victimInF:
				s.Release("c00-f")
			default:
				s.Release(names[s.Choose(len(names), "starve-step")])
			}
		}
	} else {
		for s.Budget() {
			s.Wait()
			names := s.Parked()
			if len(names) == 0 {
				break
			}
			n := names[s.Choose(len(names), "step")]
			if faults && backend == "consul" && (strings.HasSuffix(n, "-f") || strings.HasSuffix(n, "-lowget") || strings.HasSuffix(n, "-lowcas") || len(n) == 3) && s.Chance(0.08, "inject-low-level-error") {
				fc.failNext[n[:3]] = true
			}
			if s.Chance(0.03, "advance") {
				s.Advance(time.Second)
			}
			s.Release(n)
		}
	}
	s.Wait()
	if len(s.Parked()) > 0 {
		return // step budget exhausted: inconclusive, nothing is checked
	}
	// noChangeDetected retries of the gossip store sleep for a second: let them finish
	for i := 0; i < 40; i++ {
		all := true
		for _, cs := range calls {
			for _, c := range cs {
				if !c.returned {
					all = false
				}
			}
		}
		if all {
			break
		}
		s.Advance(time.Second)
		for len(s.Parked()) > 0 {
			s.Release(s.Parked()[0])
		}
	}

	// ---- oracle
	for _, key := range keys {
		cs := calls[key]
		final, err := client.Get(ctx, key)
		if err != nil {
			s.Fail("get-error", "", "Get(%s): %v", key, err)
		}
		fin := canon(final)
		type succ struct {
			c       *casCall
			in, out string
		}
		var succs []succ
		for _, c := range cs {
			if !c.returned {
				s.Fail("cas-never-returned", "", "%s op%d never returned", c.caller, c.op)
			}
			if c.err != nil || len(c.invs) == 0 {
				continue
			}
			last := c.invs[len(c.invs)-1]
			if last.out == "" {
				continue // declined
			}
			succs = append(succs, succ{c, last.in, last.out})
		}
		// chain: every success applied f to the value left by the previous success
		byIn := map[string][]succ{}
		for _, x := range succs {
			byIn[x.in] = append(byIn[x.in], x)
		}
		for in, l := range byIn {
			if len(l) > 1 {
				key2 := ""
				if in == "<nil>" && backend == "memberlist" {
					key2 = "gossip-store-first-write"
				}
				s.Fail("lost-update", key2, "key %s: %d successful CAS calls were applied to the same value %s (%s op%d and %s op%d): one of them overwrote or ignored the other", key, len(l), in, l[0].c.caller, l[0].c.op, l[1].c.caller, l[1].c.op)
			}
		}
		cur := "<nil>"
		used := 0
		for used < len(succs) {
			l := byIn[cur]
			if len(l) == 0 {
				break
			}
			cur = l[0].out
			used++
		}
		if used != len(succs) && !s.Failed() && len(s.Known) == 0 {
			s.Fail("broken-chain", "", "key %s: the %d successful CAS calls do not form one chain from the empty value (followed %d, stuck at %s); final value %s", key, len(succs), used, cur, fin)
		}
		// the mirror of a multi client only ever receives values that a successful call wrote
		if secondary != nil && len(s.Known) == 0 {
			sv, err := secondary.Get(ctx, key)
			if err == nil && sv != nil {
				mirrored := canon(sv)
				legit := false
				for _, x := range succs {
					legit = legit || x.out == mirrored
				}
				s.Probe("mirror-checked")
				if !legit {
					s.Fail("mirror-holds-unwritten-value", "", "key %s: the secondary store of the multi client holds %s, which no successful CAS wrote (final primary value %s)", key, mirrored, fin)
				}
			}
		}
		if cur != fin && len(s.Known) == 0 {
			s.Fail("final-value", "", "key %s: final value %s, but the chain of successful CAS calls ends at %s (a failed / declined call changed the value, or an update was lost)", key, fin, cur)
		}
		// linearizability of the recorded history (real-time order included)
		if len(s.Known) == 0 && len(cs) <= 60 {
			var ops []porcupine.Operation
			for i, c := range cs {
				inp := casInput{ok: false}
				if c.err == nil && len(c.invs) > 0 && c.invs[len(c.invs)-1].out != "" {
					l := c.invs[len(c.invs)-1]
					inp = casInput{ok: true, in: l.in, out: l.out}
				}
				ops = append(ops, porcupine.Operation{ClientId: i, Input: inp, Call: int64(c.invoke), Output: nil, Return: int64(c.ret)})
			}
			ops = append(ops, porcupine.Operation{ClientId: len(cs), Input: casInput{read: true, in: fin}, Call: int64(seq + 1), Return: int64(seq + 2)})
			res := porcupine.CheckOperationsTimeout(registerModel, ops, 5*time.Second)
			switch res {
			case porcupine.Illegal:
				s.Fail("not-linearizable", "", "key %s: the recorded CAS history (%d operations, final %s) has no linearization", key, len(cs), fin)
			case porcupine.Unknown:
				s.Probe("porcupine-unknown")
			default:
				s.Probe("porcupine-ok")
			}
		}
	}
	if retried {
		s.Nontrivial = true
		s.Probe("cas-retried")
	}
	s.Note("backend=%s wrappers=%v callers=%d keys=%d starve=%v faults=%v", backend, wrappers, nCallers, nKeys, starve, faults)
	s.State(backend, wrappers, nCallers, len(calls))
}

type casInput struct {
	ok      bool
	read    bool
	in, out string
}

var registerModel = porcupine.Model{
	Init: func() interface{} { return "<nil>" },
	Step: func(state, input, output interface{}) (bool, interface{}) {
		st := state.(string)
		in := input.(casInput)
		switch {
		case in.read:
			return st == in.in, st
		case in.ok:
			return st == in.in, in.out
		default:
			return true, st
		}
	},
	Equal: func(a, b interface{}) bool { return a == b },
}
