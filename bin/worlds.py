# World and property tables for bin/vcheck.
#
# WORLDS[name]: how to build the world's simulation binary from /repo's working tree
#   shims:   {path inside /repo (virtual): file under /verif}   extra non-test files added to dskit packages
#   l2:      repo files compiled from a generated copy with lock-point yields (tools/vtool l2)
#   sel:     repo files compiled from a generated copy whose receive-only select statements ask the simulator which
#            ready case proceeds (tools/vtool sel); applied after l2, before simos
#   simos:   repo files compiled from a generated copy whose "os" import is the simulated disk
#   requires: extra module requirements (exact cached versions)
# PROPS[id]: world, evidence texts.

WORLDS = {
    "exec": {"sel": ["ring/replication_set.go", "ring/replication_set_tracker.go"]},
    "mod": {},
    "gossip": {"shims": {"kv/memberlist/zz_verif_sim.go": "shims/memberlist_sim.go"}},
    "merge": {},
    "ring": {"extra_pkgs": ["simkv"], "l2": ["ring/ring.go"], "sel": ["ring/lifecycler.go", "ring/basic_lifecycler.go", "ring/partition_instance_lifecycler.go", "services/basic_service.go"], "simos": ["ring/tokens.go", "ring/lifecycler.go", "ring/basic_lifecycler_delegates.go"]},
    "cache": {},
    "cas": {"requires": ["github.com/anishathalye/porcupine@v1.3.0"],
            "shims": {"kv/zz_verif_sim.go": "shims/kv_sim.go", "kv/consul/zz_verif_sim.go": "shims/consul_sim.go", "kv/memberlist/zz_verif_sim.go": "shims/memberlist_sim.go"}},
    "svc": {"l2": ["services/basic_service.go", "services/manager.go", "services/failure_watcher.go"], "sel": ["services/basic_service.go", "services/manager.go"]},
}

_ASSUME_COMMON = [
    "sampling, not proof: a clean batch is evidence for the explored seeds only",
    "goroutine choice is controlled at harness seams (L1), where stated at lock acquisitions / releases (L2), and at the receive-only select statements of the instrumented dskit files (L3: which ready case proceeds); finer interleavings are out of reach",
    "single virtual clock (testing/synctest bubble); no per-node clock skew",
]

PROPS = {
    "C10": {
        "world": "exec", "level": "exploration", "quick_s": 15, "thorough_s": 420,
        "rule": "one evaluation = one simulated DoBatchWithOptions call (ring table, outcomes, completion order, cancellation point, spawner all drawn from the run's choice vector); non-trivial = at least two keys share a replica and the replica outcomes are mixed (success and error); distinct = distinct released-task/action sequence hash among non-trivial runs",
        "real": ["ring.DoBatchWithOptions", "ring.batchTracker/itemTracker", "concurrency.ReusableGoroutinesPool"],
        "stub": ["DoBatchRing (table of replica sets and tolerances)", "replica callbacks (parked; outcome chosen by the scheduler)", "caller context"],
        "assumptions": _ASSUME_COMMON + ["tolerances are in [0, replicas-1] as the ring produces them"],
        "level_text": "seeded exploration of completion orders, outcomes and cancellation points of the real DoBatchWithOptions against a per-key quorum model evaluated at every quiescent point; sampling, not proof",
        "level_note": "trusted: the simulator engine, the per-key quorum model written from the statement; the ring is a table stub; interleavings inside batchTracker.record's atomics are not split",
        "design_ref": "DESIGN.md section 5 C10",
    },
}

PROPS["C11"] = {
    "world": "exec", "level": "exploration", "quick_s": 15, "thorough_s": 420,
    "rule": "one evaluation = one simulated call of DoUntilQuorum / DoUntilQuorumWithoutSuccessfulContextCancellation / DoMultiUntilQuorum... / legacy ReplicationSet.Do (replication sets, zones, tolerance, minimisation, hedging delay, zone order, terminal predicate, outcomes incl. replica errors that wrap context.Canceled, completion order, clock advances, cancellation point, and (multi variant) a slow clean-up function that is itself a scheduling point, all drawn from the choice vector); non-trivial = a replica answered after the call had returned, or a failure / hedging tick released a held-back request; distinct = distinct released-task/action sequence hash among non-trivial runs",
    "real": ["ring.DoUntilQuorum", "ring.DoUntilQuorumWithoutSuccessfulContextCancellation", "ring.DoMultiUntilQuorumWithoutSuccessfulContextCancellation", "ring.ReplicationSet.Do", "default and zone-aware result/context trackers", "hedging ticker (virtual clock)"],
    "stub": ["replicas (call tasks parked; outcome chosen by the scheduler; may answer after their context was cancelled)", "caller context", "zone sorter (harness order) in part of the runs"],
    "assumptions": _ASSUME_COMMON + ["tolerances are in [0, size-1] (degenerate tolerances >= size are excluded: the code documents them as misconfiguration)", "legacy ReplicationSet.Do: only results-from-successes, criterion-at-return, error rule and delayed extra requests are checked (it documents 'all results from f' and has no cleanup hook)"],
    "level_text": "seeded exploration of outcomes, completion orders, hedging-clock positions and cancellation points of the real quorum-read executors against a criterion/cleanup/context model evaluated at every quiescent point; sampling, not proof",
    "level_note": "trusted: simulator engine and the quorum model written from the statement; receive-only select statements of ring/replication_set.go and replication_set_tracker.go are compiled from generated copies that ask the simulator which ready case proceeds (tools/vtool sel); goroutines started together inside dskit still draw from the global math/rand in runtime order (multi-set variant), oracles accept either order",
    "design_ref": "DESIGN.md section 5 C11",
}

PROPS["C17"] = {
    "world": "svc", "level": "exploration", "quick_s": 20, "thorough_s": 480,
    "rule": "one evaluation = one simulated history of a BasicService / idle / timer service (scenario 'service') or of a Manager over 1..3 services with listener, waiters and FailureWatcher (scenario 'manager'): client operations, function outcomes, cancellations and the interleaving at every client call, callback and state-mutex acquisition are drawn from the choice vector; non-trivial = lock-point yields were exercised and a stop/cancel/failure interleaved with the life cycle; distinct = distinct released-task/action sequence hash among non-trivial runs",
    "real": ["services.BasicService", "services.NewIdleService/NewTimerService", "services.Manager", "services.FailureWatcher", "services.NewListener/NewManagerListener"],
    "stub": ["starting/running/stopping functions (parked tasks, outcome chosen by the scheduler)", "listener callbacks (tasks)", "client goroutines"],
    "assumptions": _ASSUME_COMMON + ["L2: services/basic_service.go, manager.go, failure_watcher.go are compiled from generated copies in which every Lock/RLock statement is preceded by a scheduler yield (TryLock spin) and every Unlock statement / deferred unlock is followed by one; their receive-only select statements ask the simulator which ready case proceeds; interleavings between two plain statements are not split", "listener callbacks never block forever (they are released by the scheduler)"],
    "level_text": "seeded exploration of client/callback/lock-acquisition interleavings of the real service and manager code against a reference state machine (edges, function order, waiters, listener sequences, manager health) checked at every quiescent point; sampling, not proof",
    "level_note": "trusted: simulator engine, reference state machine written from the statement, the syntactic lock-point rewriter (tools/vtool)",
    "design_ref": "DESIGN.md section 5 C17",
}

PROPS["C18"] = {
    "world": "mod", "level": "exploration", "quick_s": 15, "thorough_s": 420,
    "rule": "one evaluation = one module graph (1..12 modules, random edge attempts incl. cycle-closing and self edges, modules with/without services, random target set) initialised with the real modules.Manager and then run: wrappers started in scheduler-chosen order, inner-service functions with scheduler-chosen latency and outcome, stop requests at any time; non-trivial = a diamond / shared dependency together with a failure or a stop during start-up, or a rejected cycle; distinct = distinct released-task/action sequence hash among non-trivial runs",
    "real": ["modules.Manager (RegisterModule, AddDependency, InitModuleServices, DependenciesForModule)", "modules.NewModuleService wrapper", "services.BasicService (wrappers and inner services)"],
    "stub": ["module init functions", "inner services' starting/running/stopping functions (parked tasks)", "operator (start order, stop requests)"],
    "assumptions": _ASSUME_COMMON + ["Go map iteration order inside modules (orderedDeps, wrapper dependency maps) is not controlled; oracles do not depend on it", "'stopped only after dependants' is checked for stops requested through the wrapper, not for an inner service whose running function returned by itself"],
    "level_text": "seeded exploration of dependency graphs, target sets, start orders, latencies, failures and stop times of the real module manager and wrappers against the DAG order model; sampling, not proof",
    "level_note": "trusted: simulator engine, DAG reachability model written from the statement",
    "design_ref": "DESIGN.md section 5 C18",
}

PROPS["C19"] = {
    "world": "cache", "level": "exploration", "quick_s": 12, "thorough_s": 360,
    "rule": "one evaluation = one sequential client history (5..60 operations: set, add, async and multi sets, get-multi, delete, clock advances) against one stacking order of LRU / Versioned(two versions) / Snappy over MockCache behind a fault-injecting layer, compared per read with a map-with-expiry model that tracks the local and the backend clock separately; or one server-list history of the jump-hash selector; non-trivial = a read was served by the in-memory layer after the backend entry had expired (wrappers) or a key moved after a server was appended (selector); distinct = distinct action sequence hash among non-trivial runs",
    "real": ["cache.LRUCache", "cache.Versioned", "cache.SnappyCache", "cache.MockCache", "cache.MemcachedJumpHashSelector"],
    "stub": ["sequential client", "fault layer above MockCache (failed Set/Add/Delete, failing / empty reads)", "clock: bubble clock for the LRU layer, MockCache.Advance for the backend (skew injected by advancing only one of them)"],
    "assumptions": _ASSUME_COMMON + ["weakest reading of the expiry clause: a value may be returned while the backend still holds it (backend clock), while the in-memory layer holds it from the store (local clock + TTL) or from a back-fill (local time of the last read the backend could serve + LRU default retention)", "after a store that reported an error both the previous value and the attempted value are acceptable", "server selection is a pure function: covered only at 'server list changed' events (input-shaped, see DESIGN.md section 6)"],
    "level_text": "seeded exploration of operation / clock-advance / skew / fault histories of every wrapper stacking order against a map-with-expiry reference model; sampling, not proof",
    "level_note": "trusted: simulator engine and the reference model written from the statement; no concurrency is involved (sequential client), the simulated dimensions are time, skew, eviction pressure and backend faults",
    "design_ref": "DESIGN.md section 5 C19",
}

PROPS["C07"] = {
    "world": "cas", "level": "exploration", "quick_s": 20, "thorough_s": 480,
    "rule": "one evaluation = one concurrent history of 2..16 callers x 1..12 CAS calls on 1..2 keys against one backend (consul in-memory / etcd mock / gossip store on one node) behind a drawn stack of prefix / metrics / multi(mirroring) wrappers; every invocation of f (between the backend's read and its conditional write) and, for consul, every low-level Get/CAS is a scheduling point; functions append, remove, decline, fail, ask for a retry, append-then-decline-on-retry, and decline / fail after scribbling on the object they returned earlier (callers may keep it); low-level errors are injected before commits; with the multi wrapper the secondary store must only ever hold a value that a successful call wrote; the '-starve' scenarios let an aggressor commit between every read and write of a victim; non-trivial = some CAS was retried because another commit landed in between; distinct = distinct released-task sequence hash among non-trivial runs",
    "real": ["kv/consul.Client + mockKV", "kv/etcd.Client + in-process mock", "kv/memberlist.KV + Client (one node, no transport)", "kv.PrefixClient", "kv metrics wrapper", "kv.MultiClient with mirroring", "ring.Desc codec and Merge (register values are ring descriptors)"],
    "stub": ["callers and their functions", "consul low-level fault layer", "hashicorp/memberlist transport (not needed on one node)"],
    "assumptions": _ASSUME_COMMON + ["errors are injected only before a commit: an error after a commit makes every client retry re-apply f (at-least-once by construction), which is not what the statement is about", "for the multi wrapper only the primary path is checked (mirroring is best effort)", "porcupine Unknown (timeout) is inconclusive and counted, never reported"],
    "level_text": "seeded exploration of read/modify/write interleavings of concurrent CAS callers on every backend and wrapper stack; oracle = chain of successful calls + porcupine linearizability of the recorded history against a register model; sampling, not proof",
    "level_note": "trusted: simulator engine, porcupine v1.3.0, the register model; values are made unique per write by a marker so every read is attributable",
    "design_ref": "DESIGN.md section 5 C07",
    "technique": "deterministic simulation (seeded schedules at CAS read/modify/write points, pre-commit fault injection) + porcupine linearizability check of recorded histories",
}

_RING_REAL = ["ring.Lifecycler", "ring.BasicLifecycler + InstanceRegister / LeaveOnStopping / TokensPersistency / AutoForget delegates", "ring.Desc model and codec", "tokens file code (ring/tokens.go)", "services.BasicService", "kv/consul in-memory client + mockKV (shared store)"]
_RING_STUB = ["kv seam (worlds/simkv): per-actor kv.Client wrapper with scheduling points, fault injection, commit recording, harness-owned WatchKey", "token generators (tiny alphabet + seeded)", "operator (forget, wipe)", "os for the tokens file (simrt/simos, in-memory disk)"]
PROPS["C08"] = {
    "world": "ring", "level": "exploration", "quick_s": 25, "thorough_s": 600,
    "rule": "one evaluation = one simulated history (up to 5 virtual minutes) of 1..5 lifecyclers (classic and basic) on one store: starts, external state changes, read-only toggles, token claims, stops with/without unregistering, restarts, operator forget, KV error windows, lost acks, forced retries, ring wipes, stalls and clock advances; every committed write is attributed to its writer and checked; a second, directed scenario ('restart-entry-forgotten', every fourth run) restarts an instance whose LEAVING entry (with or without tokens) is forgotten by the operator while the restart's first write is in flight, then switches it to ACTIVE from outside and asks for its readiness; non-trivial = at least two lifecyclers and at least one CAS retried because of contention (directed scenario: the instance was ACTIVE without tokens in the ring when asked); distinct = distinct released-task/action sequence hash among non-trivial runs",
    "real": _RING_REAL, "stub": _RING_STUB,
    "assumptions": _ASSUME_COMMON + ["heartbeat liveness is only demanded in windows where the store accepts the writer's calls and the scheduler did not stall it", "tokens inherited from the ring or a tokens file are exempt from the 'not visible as another instance's token' clause, as the statement says"],
    "level_text": "seeded exploration of lifecycler histories with per-commit attribution (diff of in/out restricted to the writer's entry, state edges, timestamps, registration time, tokens at activation, readiness); sampling, not proof",
    "level_note": "trusted: simulator engine, simkv seam (commit attribution is exact: the wrapper sees which caller's function produced the accepted value), the edge table written from the statement",
    "design_ref": "DESIGN.md section 5 C08",
}

PROPS["C09"] = {
    "world": "ring", "level": "fault_enumeration", "quick_s": 25, "thorough_s": 600,
    "rule": "crash points are enumerated from the run index: scenario (fresh join, join with observe period, restart from tokens file, leave with / without unregistering, token hand-over, ring wipe, KV outage, wipe while leaving, tokens-file faults) x lifecycler kind (classic, basic) x fault point (store write k=1..10 before / after its commit; tokens-file operation j=1..8 crash before / after / torn write / error); bystander lifecyclers and all interleavings are drawn from the choice vector; one evaluation = one such history including the restart and a bounded fault-free recovery window; non-trivial = the crash landed at the second or a later write of the phase, or on a tokens-file operation, or the scenario is a wipe / outage; distinct = distinct released-task/action sequence hash among non-trivial runs; probes 'crash-point:<scenario>:<kind>:<point>' list the enumerated points actually reached",
    "real": _RING_REAL, "stub": _RING_STUB,
    "assumptions": _ASSUME_COMMON + ["a crash is a process crash: the goroutines of the instance never run again, only the KV content and the tokens file survive; data written with write() survives (no power-loss model: the code under test never fsyncs)", "the wipe fault is not injected while a CAS is between its read and its write: the in-memory consul store would accept the stale write on the deleted key (a real consul does not)", "recovery is demanded within 2 min + join-after + 4 x observe period of fault-free virtual time"],
    "level_text": "systematic enumeration of crash points (every store write before/after commit, every tokens-file operation) per scenario and lifecycler kind, each explored under seeded interleavings with bystanders; recovery obligations checked after a bounded fault-free window",
    "level_note": "trusted: simulator engine, simkv crash injection (the writer's goroutine blocks forever before / after the store accepted the write), simos disk",
    "design_ref": "DESIGN.md section 5 C09",
    "technique": "deterministic simulation with systematic crash-point enumeration (store writes and tokens-file operations) plus seeded schedules",
}

_RING_CLIENT_REAL = _RING_REAL + ["ring.Ring client (Get, GetAllHealthy, GetReplicationSetForOperation, ShuffleShard*, GetTokenRangesForInstance, counts, zones), default replication strategy"]
PROPS["C01"] = {
    "world": "ring", "level": "exploration", "quick_s": 25, "thorough_s": 600,
    "rule": "one evaluation = one lifecycler-driven ring history (1..8 lifecyclers, zones, tiny token alphabet incl. 0, 1, 2, 2^32-3..2^32-1, stalls ageing heartbeats across the timeout, forgets, wipes) observed by a fresh ring client at every ring version and after every clock advance: every boundary key (token-1, token, token+1, 0, 2^32-1; at most 48 per version) x the four built-in operations is compared with the reference walk and quorum arithmetic written from the statement; single-instance registrations / removals are checked for locality; replication factor 1..5, zone-awareness on/off, 1..5 zones drawn per run; non-trivial = at least 3 instances and a lookup whose walk contained an extending or unhealthy instance; distinct = distinct released-task/action sequence hash among non-trivial runs",
    "real": _RING_CLIENT_REAL, "stub": _RING_STUB + ["fresh ring clients read the observed descriptor from a static kv.Client"],
    "assumptions": _ASSUME_COMMON + ["input-shaped half of the property (all 2^32 keys): keys are covered by boundary classes on reachable states, not enumerated (DESIGN.md section 6)", "zone-aware reading: an instance whose state extends the set is included but neither counts towards the replication factor nor occupies its zone", "ring versions in which two instances hold the same token (possible only after a wipe) are skipped"],
    "level_text": "seeded exploration of reachable ring states and clock positions; every lookup is compared with an independent reference model; sampling, not proof",
    "level_note": "trusted: simulator engine, the reference walk (60 lines) written from the statement",
    "design_ref": "DESIGN.md section 5 C01",
}

PROPS["C14"] = {
    "world": "ring", "level": "exploration", "quick_s": 20, "thorough_s": 480,
    "rule": "one evaluation = one lifecycler-driven ring history over a tiny token alphabet (0, 1, 2, 3, 7, 2^31, 2^31+-1, 2^32-4..2^32-1) in 1..4 zones; on every ring version a fresh zone-aware client with RF = number of zones reports GetTokenRangesForInstance for every instance: membership of every boundary key is compared with the owner of that key in the instance's zone (first token strictly after the key), the ranges of a zone must tile [0, 2^32-1] exactly, and on all-ACTIVE healthy rings the real lookup is cross-checked; scenario 'partition-ranges' (real partition lifecyclers + editor + operator-written partitions over the same tiny alphabet) checks GetTokenRangesForPartition of every partition on every stored version and on 4..16 operator-written miniature rings (1..3 partitions x 0..3 tiny tokens) per run the same way (membership vs. owner of the first token strictly after the key, exact tiling, cross-check with ActivePartitionForKey on all-active rings); non-trivial = a state in which some instance owns token 0, 1 or 2^32-1; distinct = distinct released-task/action sequence hash among non-trivial runs",
    "real": _RING_CLIENT_REAL, "stub": _RING_STUB + ["fresh ring clients read the observed descriptor from a static kv.Client"],
    "assumptions": _ASSUME_COMMON + ["input-shaped property: no schedule dimension of its own; it is evaluated as a cross-invariant on the ring states the simulated lifecyclers and operator reach (DESIGN.md section 6)"],
    "level_text": "seeded exploration of reachable ring states over a boundary-biased token alphabet; ranges vs. ownership and exact tiling checked per state; sampling, not proof",
    "level_note": "trusted: simulator engine, the 15-line zone-owner function written from the statement",
    "design_ref": "DESIGN.md section 5 C14",
}

PROPS["C02"] = {
    "world": "ring", "level": "exploration", "quick_s": 25, "thorough_s": 600,
    "rule": "one evaluation = one lifecycler-driven ring history (plus operator-written entries: token-less, PENDING, LEFT, stale) with RF 1..5, zone-awareness on/off, 1..5 zones; on every ring version and clock advance a fresh client computes Get(key, Write) for the boundary keys and GetReplicationSetForOperation(Read) at the same frozen instant; every minimal acknowledging subset (size |I|-MaxErrors) is intersected with every minimal answering subset (instances, or whole zones); on a sample of states one adversarial pair is played through the real DoBatch and DoUntilQuorum (read-your-writes); non-trivial = both lookups succeeded with non-zero tolerance on both sides; distinct = distinct released-task/action sequence hash among non-trivial runs",
    "real": _RING_CLIENT_REAL + ["ring.DoBatchWithOptions", "ring.DoUntilQuorum (read-your-writes sample)"], "stub": _RING_STUB + ["replicas of the read-your-writes sample (in-sim stores)"],
    "assumptions": _ASSUME_COMMON + ["states with more than 9 instances are skipped (exact subset enumeration)", "every instance carries a zone when zone-awareness is on, as the quantifier says"],
    "level_text": "seeded exploration of reachable ring states; exact enumeration of minimal subset pairs per state; sampling of states, not proof",
    "level_note": "trusted: simulator engine, subset enumeration; the success criteria of the executors are C10 / C11",
    "design_ref": "DESIGN.md section 5 C02",
}

PROPS["C03"] = {
    "world": "merge", "level": "exploration", "quick_s": 12, "thorough_s": 360,
    "rule": "one evaluation = one set of updates produced under the statement's proviso (2..3 instances or 1..3 partitions + 0..2 owners, 1..4 versions each, removals as tombstones in the same second or later, lock and state timestamps independent) delivered to 2..4 bare replicas by a simulated network: any order, repetition, grouping (updates merged into one another first), full states of other replicas, and the changes reported by earlier merges; after every single merge: 'no change => content untouched', 'pre + reported change == post', idempotence; at the end: all replicas equal each other and the newest-timestamp-wins reference, and a replica fed only reported changes equals the one fed full updates; non-trivial = at least 3 updates and two replicas that received the originals in different orders; distinct = distinct delivery trace hash among non-trivial runs. The GOSSIP world (C06) cross-checks convergence of the same merges through the real KV",
    "real": ["(*ring.Desc).Merge / mergeWithTime, MergeContent, Clone", "(*ring.PartitionRingDesc).Merge"],
    "stub": ["writers (update generator obeying the proviso)", "network (delivery order / grouping / multiplicity)", "no KV, no goroutines in this world"],
    "assumptions": _ASSUME_COMMON + ["the statement's proviso is built into the generator: one writer per entry, a new timestamp for every content change, disjoint token pools (no token collisions), tombstone timestamp >= last content", "localCAS=true merges are writers' local steps and not part of the delivered traffic"],
    "level_text": "seeded exploration of delivery orders, groupings, multiplicities and delta-only feeds over a small universe of updates; per-merge and end-state oracles; sampling, not proof",
    "level_note": "trusted: simulator engine (choice vector, shrinking), the 10-line newest-timestamp-wins reference",
    "design_ref": "DESIGN.md section 5 C03",
}

_GOSSIP_REAL = ["kv/memberlist.KV (store, CAS, mergeValueForKey, broadcast queues + ringBroadcast.Invalidates, per-key workers, watchers, notifications, tombstone GC, obsolete-entry cleanup, running loop)", "kv/memberlist.Client", "hashicorp TransmitLimitedQueue", "ring.Desc / PartitionRingDesc Merge, codecs", "ring.Ring lookups over each node's visible state"]
_GOSSIP_STUB = ["hashicorp/memberlist SWIM protocol, membership, TCP transport, DNS join: replaced by the harness network (NewSimKV shim; the harness calls GetBroadcasts / NotifyMsg / LocalState / MergeRemoteState)", "writers (one per ring entry), partition-ring editors, operator forget"]
_GOSSIP_ASSUME = _ASSUME_COMMON + ["one writer per entry and a new timestamp for every content change (the proviso of C03), instances are not re-registered under the same id within a run", "messages delayed longer than half the tombstone retention are discarded by the simulated network (the statement bounds delays below the retention)", "hashicorp/memberlist itself is stubbed: the properties are decided for dskit's delegate / KV layer under an adversarial network"]
PROPS["C06"] = {
    "world": "gossip", "level": "exploration", "quick_s": 25, "thorough_s": 600,
    "rule": "one evaluation = one history of a 2..6 node gossip cluster: writers and partition-ring editors issue CAS on their nodes (state and state-change lock of a partition are written on different nodes) (interleaved at the read/modify/write point), gossip packets (large and tiny size limits), push/pull exchanges in either direction, per message drop / duplicate / delay / reorder / corrupt (truncated, garbage, empty key, unknown codec, short push/pull frame), partitions and heals, node restarts, watcher registration and cancellation, clock advances; then faults stop and fair gossip rounds plus two full push/pull rounds run: all live nodes must show the same value for every key, acknowledged CAS must be reflected, watchers must hold the final value; scenario 'rebroadcast-only' has no push/pull and no loss (only delay / reorder / duplication, round-robin targets) and must converge by rebroadcast alone; non-trivial = at least one dropped message and one heal/restart before quiescence (cluster) or more than 5 gossip packets (rebroadcast-only); distinct = distinct action sequence hash among non-trivial runs",
    "real": _GOSSIP_REAL, "stub": _GOSSIP_STUB, "assumptions": _GOSSIP_ASSUME,
    "level_text": "seeded exploration of message fault sequences and interleavings over the real gossip KV; safety oracles after every step, convergence / reflection / watcher oracles after a stated quiescence budget; sampling, not proof",
    "level_note": "trusted: simulator engine, the harness network, an independent decoder deciding which messages are malformed",
    "design_ref": "DESIGN.md section 5 C06",
}
PROPS["C04"] = {
    "world": "gossip", "level": "exploration", "quick_s": 25, "thorough_s": 600,
    "rule": "one evaluation = one gossip-cluster history biased towards removals: instances heartbeat, change state, unregister (or are forgotten by the operator on any node showing them), in the same second as the last heartbeat or later; every message produced before a removal may be delivered arbitrarily late (up to half the retention), duplicated and reordered; after every step on every node: readers and watchers never see LEFT / deleted entries, an entry whose tombstone a node holds never becomes visible on that node while the tombstone is there, a tombstone disappears only when older than the retention; after quiescence all nodes agree; non-trivial = a message sent before a removal was delivered to a node already holding the tombstone; distinct = distinct action sequence hash among non-trivial runs",
    "real": _GOSSIP_REAL, "stub": _GOSSIP_STUB, "assumptions": _GOSSIP_ASSUME,
    "level_text": "seeded exploration of removal / late-delivery interleavings over the real gossip KV with per-step tombstone invariants; sampling, not proof",
    "level_note": "trusted: simulator engine, harness network, raw-state inspection through the SimStore shim (deep copy of the store)",
    "design_ref": "DESIGN.md section 5 C04",
}
PROPS["C05"] = {
    "world": "gossip", "level": "exploration", "quick_s": 25, "thorough_s": 600,
    "rule": "one evaluation = one gossip-cluster history in which writers deliberately pick overlapping tokens from a 6-value alphabet (0, 1, 2, 7, 2^32-2, 2^32-1), in all states incl. LEAVING, with unsorted / duplicated incoming token lists, interleaved with local CAS (incl. a writer that appends to the token slice the store handed out, as verifyTokens does); after every step on every node's raw state: no token in two entries that have not left, token lists sorted and duplicate-free; on the merge step that creates a collision the winner rule is evaluated (leaving loses, else smaller id); the state every node shows is fed to ring clients (zone-aware and not) and queried: no ErrInconsistentTokensInfo, no panic; non-trivial = at least one collision was resolved; distinct = distinct action sequence hash among non-trivial runs",
    "real": _GOSSIP_REAL, "stub": _GOSSIP_STUB, "assumptions": _GOSSIP_ASSUME + ["the winner rule is evaluated on single-message deliveries (the step that creates the collision), which is the unambiguous reading of 'resolved to the same winner'"],
    "level_text": "seeded exploration of colliding token claims merged in all orders over the real gossip KV; per-step uniqueness invariant and winner rule; sampling, not proof",
    "level_note": "trusted: simulator engine, harness network, the 25-line winner function written from the statement",
    "design_ref": "DESIGN.md section 5 C05",
}

PROPS["C12"] = {
    "world": "ring", "level": "exploration", "quick_s": 25, "thorough_s": 600,
    "rule": "one evaluation = one ring history (2..8 lifecyclers joining, leaving, toggling read-only; up to 8 operator-written instances with truthful registration / read-only times; 1..4 zones, zone-awareness on/off; clock advances up to 9 minutes) observed by fresh cache-less clients at every ring version: for 3 identifiers x sizes {0,1,2,3,4,6,n,n+2}: same content => same shard; size = request rounded up to a multiple of the zones, even per zone, fewer only where a zone lacks eligible instances; no read-only member; shard(size) within shard(size+zones); single-instance registration / removal changes a shard by at most one instance; every shard is recorded with its virtual time and ShuffleShardWithLookback (windows 30 s, 2 min, 10 min) must contain every still-registered instance recorded inside the window; scenario 'partition-shards' checks PartitionRing.ShuffleShard* on every stored version of a partition ring driven by real lifecyclers, an editor and an operator: determinism, exactly min(size, active) active partitions, nesting, at most one partition moved when one active partition is added or removed, look-back superset over recorded shards incl. windows starting exactly in the second of a state change; non-trivial = a look-back query whose window contains a membership or read-only change; distinct = distinct released-task/action sequence hash among non-trivial runs",
    "real": _RING_CLIENT_REAL, "stub": _RING_STUB + ["fresh ring clients read the observed descriptor from a static kv.Client"],
    "assumptions": _ASSUME_COMMON + ["look-back histories are restricted to what the ring can know, as the statement says: registrations and read-only switches carry correct timestamps, a registered instance does not change its tokens inside the window", "eligible instances of a zone: between 'not read-only with tokens' and 'not read-only' (the statement does not say whether token-less instances count)"],
    "level_text": "seeded exploration of membership histories with per-version shard oracles and a history oracle for look-back; sampling, not proof",
    "level_note": "trusted: simulator engine; shard shape arithmetic written from the statement",
    "design_ref": "DESIGN.md section 5 C12",
}

PROPS["C13"] = {
    "world": "ring", "level": "exploration", "quick_s": 25, "thorough_s": 600,
    "rule": "one evaluation = one history of 10..70 steps against one long-lived ring client with caches on, fed through the store's watch (the scheduler decides when, and how coalesced, it is handed a new version): random descriptor updates (heartbeat-only, state-only, tokens, zone, address, registration time, read-only flag/time, versions map, instance add/remove, identical rewrite; 1-2 per write; store that shares token storage between versions or decodes fresh copies), clock advances 1 s..1 h, cache clean-ups; after every step 0..3 random questions (ShuffleShard, ShuffleShardWithLookback at now-3h..now+1h with windows 1 min..3 h, Get, GetAllHealthy, GetReplicationSetForOperation, GetSubringForOperationStates, per-instance state/desc/token ranges, counts, zones) are answered by the long-lived client and by a cache-less client freshly built from the last version handed over, at the same frozen instant, and compared field by field (sub-rings through a full fingerprint of their own answers); scenario 'ring-client-concurrent-readers' additionally runs reader tasks whose lock acquisitions in ring/ring.go are scheduling points (L2) while updates are applied: each concurrent answer must equal the fresh answer for one of the versions current while it ran; non-trivial = at least 3 updates, 3 versions handed over and 5 compared answers; distinct = distinct released-task/action sequence hash among non-trivial runs",
    "real": ["ring.Ring client with sub-ring caches (updateRingState, RingCompare shortcut, ShuffleShard*/cache fill and refresh, all read methods)", "ring.PartitionRingWatcher, ring.PartitionRing and its shuffle-shard caches (map and LRU)", "consul in-memory store"], "stub": ["kv seam (worlds/simkv) with harness-owned WatchKey", "storage-sharing in-process store (other half of the runs)", "descriptor mutator (harness)"],
    "assumptions": _ASSUME_COMMON + ["no two instances hold the same token in generated descriptors (the answer of either client would then depend on map iteration order)", "the partition-ring half (scenario 'partition-watcher': PartitionRingWatcher with map or LRU(1,2,8) shard caches, random partition / owner / lock updates, delegate callbacks) is sequential: lock-point interleavings are only explored for the instance ring"],
    "level_text": "seeded differential exploration: long-lived cached client vs. fresh cache-less client on the same content at the same instant, over random update/query histories with scheduler-controlled watch delivery and (second scenario) lock-point interleavings of concurrent readers; sampling, not proof",
    "level_note": "trusted: simulator engine, simkv watch seam (records exactly the value handed to the client's callback), the fresh client as reference (its own correctness is C01/C12/C14)",
    "design_ref": "DESIGN.md section 5 C13",
}

_PART_REAL = ["ring.PartitionInstanceLifecycler", "ring.PartitionRingEditor", "ring.PartitionRing (routing, shards, token ranges)", "ring.ActivePartitionBatchRing", "ring.PartitionInstanceRing / MultiPartitionInstanceRing", "consul in-memory store with the partition-ring codec"]
_PART_STUB = ["kv seam (worlds/simkv)", "operator writing truthful partitions with small token sets", "instance ring reader (table of healthy / unhealthy / unknown owners)"]
PROPS["C15"] = {
    "world": "ring", "level": "exploration", "quick_s": 25, "thorough_s": 600,
    "rule": "one evaluation = one history of 20..120 steps: 1..4 real partition lifecyclers (partitions 0..2, so partitions are shared; wait-owners 0..2 for 0/10/30 s; deletion delay off/20 s/2 min; polling 1/5 s; single- or multi-partition ownership; create-on-startup and remove-owner-on-shutdown drawn) plus an editor (state changes incl. illegal ones, lock/unlock, owner removal) on a ring that an operator pre-populated with 0..16 partitions in all states over a tiny token alphabet (0, 1, 2, 3, 7, 2^31, 2^31+-1, 2^32-4..2^32-1); starts, stops, restarts, explicit state changes, forced CAS retries, lost acks, rejected writes, clock advances 1 s..2 min; every CAS is two scheduling points. Every committed version is attributed to its writer and checked (edge table, lock, creation state, promotion and deletion conditions with the writer's configuration and the commit's virtual time, own-partition exemption); on every version a fresh PartitionRing routes every boundary key (token-1, token, token+1, 0, 2^32-1; <= 64) and the result is compared with a reference walk, incl. ActivePartitionBatchRing.Get and GetKeysByPartition; per-partition replication sets (single- and multi-partition ownership) are compared with the healthy registered owners over a drawn instance table, also while the reader's ring is replaced between two calls (the answer must describe one snapshot); 4..16 operator-written miniature rings (1..3 partitions x 0..3 tiny tokens, any states) per run go through the same routing check; after the faults stop the clock runs for 3 min 10 s and pending partitions with enough old owners must be active, abandoned inactive partitions deleted; non-trivial = at least 4 commits and (an automatic promotion or deletion happened or a routed ring had at least 3 partitions with active and non-active ones); distinct = distinct released-task/action sequence hash among non-trivial runs",
    "real": _PART_REAL, "stub": _PART_STUB,
    "assumptions": _ASSUME_COMMON + ["a Pending->Active commit made while the writer has an explicit ChangePartitionState call in flight is treated as explicit (not subject to the owner-count condition)", "bounded progress is only demanded for unlocked partitions and lifecyclers that are running at the end"],
    "level_text": "seeded exploration of lifecycler/editor histories with per-commit attribution and per-version routing / replication-set reference checks; bounded progress after faults stop; sampling, not proof",
    "level_note": "trusted: simulator engine, simkv commit attribution, the reference walk and the condition arithmetic written from the statement",
    "design_ref": "DESIGN.md section 5 C15",
}

HOOK_COMMITS = []

_PENDING = "claimed in DESIGN.md; check not yet registered (implementation in progress)"
NOT_APPLICABLE = {
    "C16": "pure function of (count, taken set, PRNG state) / (instance index, zone index): no schedule, clock, fault or multi-party behaviour for a simulator to own; see DESIGN.md section 6",
    "C20": "pure string validation/normalisation and header round-trips: nothing concurrent, timed, faulty or stateful; see DESIGN.md section 6",
}
for _p in ["C%02d" % i for i in range(1, 21)]:
    if _p not in PROPS and _p not in NOT_APPLICABLE:
        NOT_APPLICABLE[_p] = _PENDING

